"""Template assembler: reads a unit template (units/*.vrs), re-extracts the named items
from /repo's working tree on every run, splices the contract text in, and writes one
single-file Verus crate.  See DESIGN.md section 2.1 for the three extraction tiers.

Directives (each on its own line, starting with //@):

  //@fn <file> :: <seg> [:: <seg>...]      start of a T1/T2 function block
  //@item <file> :: <seg> [:: <seg>] [strip-attrs]   verbatim item (struct/const/enum/static)
  //@frag <file> :: <seg> [:: <seg>...]    start of a T3 fragment block

inside a //@fn or //@frag block (terminated by //@end):

  //@ret <name>                name the return value:  -> T   becomes  -> (name: T)
  //@rename <ident>            rename the function
  //@vis <text>                replace visibility qualifiers by <text> (may be empty)
  //@rule R1|R2|R3             apply the desugaring rule (must match exactly once)
  //@drop-log                  replace log::xxx!(..) / debug!(..) etc. statements by ()
  //@novacuity                 do not generate the vacuity twin (trait impl members, requires false)
  //@sig                       following lines go between signature and body brace
  //@loop <n> [iter=<name>]    following lines go between the n-th loop head and its brace
  //@proof <block> <pos>       following lines are inserted into <block> at <pos>
        <block> ::= body | loop <n> | if <n> | else <n>
        <pos>   ::= at-start | at-end | before-stmt <k> | after-stmt <k> | before | after   (the last two: loops only)
                  | before-matching <regex> | after-matching <regex>   (the one statement of the block that matches)
  (frag only)
  //@start <regex>             first line of the fragment (regex searched in the fn body)
  //@stop <regex>              last line of the fragment (searched after start)
  //@start-after <regex>       the fragment starts on the line AFTER the matching line
  //@stop-before <regex>       the fragment ends on the line BEFORE the matching line
  //@wrap                      following lines: wrapper fn header up to (excluding) '{'
  //@pre                       following lines: statements placed before the fragment
  //@post                      following lines: statements/expression placed after it
  //@bind NAME <regex>         ${NAME} in the contract text = group 1 of the regex in the extracted text (a local's name)
  //@subst <regex> => <text>   textual substitution inside the fragment (listed in evidence); `//@subst?` = optional
"""
import os
import re
import sys

from rstok import (tokenize, find_item, match_close, LostAnchor, Unsupported, OPEN)

LOG_MACROS = ("log::trace", "log::debug", "log::info", "log::warn", "log::error",
              "trace", "debug", "info", "warn", "error")


class Extraction:
    """Record of what was taken from the repository for one unit (for evidence)."""

    def __init__(self):
        self.functions = []     # dicts: file, path, tier, rules, lines (src range), sha
        self.items = []
        self.frags = []
        self.dropped = []       # strings
        self.substs = []
        self.linemap = []       # (out_line_start, out_line_end, file, src_line_start)


def _read(repo, rel):
    p = os.path.join(repo, rel)
    if not os.path.exists(p):
        raise LostAnchor("file %s not found" % rel)
    with open(p, encoding="utf-8") as f:
        return f.read()


def _line_of(src, off):
    return src.count("\n", 0, off) + 1


# --------------------------------------------------------------------------------------
# statement / block location inside a function text

def _body_brace(toks, start=0):
    """index of the '{' that opens the body of the fn whose 'fn' keyword is at/after start."""
    i = start
    while toks[i].text != "fn":
        i += 1
    i += 1
    angle = 0
    while i < len(toks):
        t = toks[i]
        if t.kind == "punct":
            if t.text in ("(", "["):
                i = match_close(toks, i)
            elif t.text == "{" or t.text == ";":
                return i
        i += 1
    raise Unsupported("no body")


def _loops(toks, lo, hi):
    """indices of loop keywords (for/while/loop) in toks[lo:hi], in source order."""
    out = []
    for i in range(lo, hi):
        t = toks[i]
        if t.kind == "id" and t.text in ("for", "while", "loop"):
            # 'for' in 'impl X for Y' or HRTB 'for<'a>' cannot occur inside a fn body
            # except HRTB; skip if next token is '<'
            if t.text == "for" and toks[i + 1].text == "<":
                continue
            out.append(i)
    return out


def _ifs(toks, lo, hi):
    return [i for i in range(lo, hi) if toks[i].kind == "id" and toks[i].text == "if"]


def _elses(toks, lo, hi):
    return [i for i in range(lo, hi) if toks[i].kind == "id" and toks[i].text == "else"
            and toks[i + 1].text == "{"]


def _block_after(toks, i):
    """index of the first '{' at delimiter depth 0 after toks[i] (head of loop/if)."""
    j = i + 1
    while j < len(toks):
        t = toks[j]
        if t.kind == "punct":
            if t.text in ("(", "["):
                j = match_close(toks, j)
            elif t.text == "{":
                return j
        j += 1
    raise Unsupported("no block after keyword")


BLOCK_KW = {"if", "while", "for", "loop", "match", "unsafe"}


def _statements(toks, open_idx):
    """Split the block opened at toks[open_idx] into statements.
    Returns list of (first_tok_idx, last_tok_idx) inclusive."""
    close = match_close(toks, open_idx)
    out = []
    i = open_idx + 1
    while i < close:
        first = i
        blocky = toks[i].kind == "id" and toks[i].text in BLOCK_KW or toks[i].text == "{"
        j = i
        while j < close:
            t = toks[j]
            if t.kind == "punct" and t.text in OPEN:
                k = match_close(toks, j)
                if t.text == "{" and blocky:
                    nxt = toks[k + 1] if k + 1 < close else None
                    if nxt is None:
                        j = k
                        break
                    if nxt.kind == "id" and nxt.text == "else":
                        j = k + 1
                        continue
                    if nxt.text in (".", "?"):
                        blocky = False
                        j = k + 1
                        continue
                    if nxt.text == ";":
                        j = k + 1
                        break
                    j = k
                    break
                j = k + 1
                continue
            if t.text == ";":
                break
            j += 1
        if j >= close:
            j = close - 1
        out.append((first, j))
        i = j + 1
    return out


def _find_block(toks, body_open, spec):
    """spec: 'body' | 'loop n' | 'if n' | 'else n' -> index of the '{' of that block."""
    body_close = match_close(toks, body_open)
    parts = spec.split()
    if parts[0] == "body":
        return body_open
    n = int(parts[1])
    if parts[0] == "loop":
        ks = _loops(toks, body_open, body_close)
    elif parts[0] == "if":
        ks = _ifs(toks, body_open, body_close)
    elif parts[0] == "else":
        ks = _elses(toks, body_open, body_close)
    else:
        raise Unsupported("bad block spec %r" % spec)
    if n < 1 or n > len(ks):
        raise LostAnchor("%s: function has only %d such blocks" % (spec, len(ks)))
    return _block_after(toks, ks[n - 1])


# --------------------------------------------------------------------------------------
# desugaring rules (T2)

def _expr_start(toks, i, stop_at):
    """walk left from token i (exclusive) to the start of the receiver expression:
    stop after the nearest ';', '{', '}', '=' (assignment) or ',' at depth 0."""
    depth = 0
    j = i - 1
    while j >= stop_at:
        t = toks[j]
        if t.kind == "punct":
            if t.text in (")", "]"):
                depth += 1
            elif t.text in ("(", "["):
                if depth == 0:
                    return j + 1
                depth -= 1
            elif depth == 0 and t.text in (";", "{", "}", "=", ","):
                return j + 1
        j -= 1
    return stop_at


def _seq(toks, i, texts):
    return all(i + k < len(toks) and toks[i + k].text == x for k, x in enumerate(texts))


def rule_R1(text):
    """E.iter().for_each(|&v| B);  ->  for __r in E.iter() { let v = *__r; B; }"""
    toks = tokenize(text)
    hits = [i for i in range(len(toks))
            if _seq(toks, i, [".", "iter", "(", ")", ".", "for_each", "(", "|", "&"])
            and toks[i + 9].kind == "id" and toks[i + 10].text == "|"]
    if len(hits) != 1:
        raise Unsupported("R1 matches %d times" % len(hits))
    i = hits[0]
    v = toks[i + 9].text
    call_open = i + 6
    call_close = match_close(toks, call_open)
    if toks[call_close + 1].text != ";":
        raise Unsupported("R1: for_each not used as a statement")
    e0 = _expr_start(toks, i, 0)
    E = text[toks[e0].start:toks[i].start]
    B = text[toks[i + 10].end:toks[call_close].start].strip()
    new = "for __r in %s.iter() { let %s = *__r; %s; }" % (E.strip(), v, B)
    return text[:toks[e0].start] + new + text[toks[call_close + 1].end:]


def rule_R2(text):
    """E.iter().map(|&v| M).any(|s| P)
       -> { let mut __a = false; for __r in E.iter() { let v = *__r; let s = M; if P { __a = true; break; } } __a }"""
    toks = tokenize(text)
    hits = [i for i in range(len(toks))
            if _seq(toks, i, [".", "iter", "(", ")", ".", "map", "(", "|", "&"])
            and toks[i + 9].kind == "id" and toks[i + 10].text == "|"]
    if len(hits) != 1:
        raise Unsupported("R2 matches %d times" % len(hits))
    i = hits[0]
    v = toks[i + 9].text
    map_open = i + 6
    map_close = match_close(toks, map_open)
    if not _seq(toks, map_close + 1, [".", "any", "(", "|"]):
        raise Unsupported("R2: map not followed by any")
    s_tok = toks[map_close + 5]
    if s_tok.kind != "id" or toks[map_close + 6].text != "|":
        raise Unsupported("R2: any closure parameter")
    any_open = map_close + 3
    any_close = match_close(toks, any_open)
    e0 = _expr_start(toks, i, 0)
    E = text[toks[e0].start:toks[i].start].strip()
    M = text[toks[i + 10].end:toks[map_close].start].strip()
    P = text[toks[map_close + 6].end:toks[any_close].start].strip()
    new = ("{ let mut __a = false; for __r in %s.iter() { let %s = *__r; let %s = %s; "
           "if %s { __a = true; break; } } __a }" % (E, v, s_tok.text, M, P))
    return text[:toks[e0].start] + new + text[toks[any_close].end:]


def rule_R3(text):
    """S.windows(2).take_while(|p| P).count()
       -> ({ let mut __n: usize = 0; while __n + 1 < S.len() { let p = &S[__n..__n + 2];
            if !(P) { break; } __n += 1; } __n })"""
    toks = tokenize(text)
    hits = [i for i in range(len(toks))
            if _seq(toks, i, [".", "windows", "(", "2", ")", ".", "take_while", "(", "|"])
            and toks[i + 9].kind == "id" and toks[i + 10].text == "|"]
    if len(hits) != 1:
        raise Unsupported("R3 matches %d times" % len(hits))
    i = hits[0]
    p = toks[i + 9].text
    tw_open = i + 7
    tw_close = match_close(toks, tw_open)
    if not _seq(toks, tw_close + 1, [".", "count", "(", ")"]):
        raise Unsupported("R3: take_while not followed by count()")
    e0 = _expr_start(toks, i, 0)
    S = text[toks[e0].start:toks[i].start].strip()
    if not re.fullmatch(r"[A-Za-z_][A-Za-z0-9_]*", S):
        raise Unsupported("R3: receiver %r is not a plain variable" % S)
    P = text[toks[i + 10].end:toks[tw_close].start].strip()
    new = ("({ let mut __n: usize = 0; while __n + 1 < %s.len() { let %s = &%s[__n..__n + 2]; "
           "if !(%s) { break; } __n += 1; } __n })" % (S, p, S, P))
    return text[:toks[e0].start] + new + text[toks[tw_close + 4].end:]


def rule_R4(text):
    """E.iter().any(|v| P)
       -> ({ let mut __a = false; for __r in E.iter() { let v = __r; if P { __a = true; break; } } __a })"""
    toks = tokenize(text)
    hits = [i for i in range(len(toks))
            if _seq(toks, i, [".", "iter", "(", ")", ".", "any", "(", "|"])
            and toks[i + 8].kind == "id" and toks[i + 9].text == "|"]
    if len(hits) != 1:
        raise Unsupported("R4 matches %d times" % len(hits))
    i = hits[0]
    v = toks[i + 8].text
    any_open = i + 6
    any_close = match_close(toks, any_open)
    e0 = _expr_start(toks, i, 0)
    # the receiver may itself start after a keyword such as `if`
    while toks[e0].kind == "id" and toks[e0].text in ("if", "while", "return", "let"):
        e0 += 1
    E = text[toks[e0].start:toks[i].start].strip()
    P = text[toks[i + 9].end:toks[any_close].start].strip()
    new = ("({ let mut __a = false; for __r in %s.iter() { let %s = __r; if %s { __a = true; break; } } __a })"
           % (E, v, P))
    return text[:toks[e0].start] + new + text[toks[any_close].end:]


def rule_R5(text):
    """X.to_le_bytes()  ->  __to_le_bytes(X)   (X an identifier or a parenthesised expression).
    Verus cannot attach a specification to the core method (its return type contains an anonymous
    constant), so the call is redirected to a wrapper carrying the assumed contract."""
    n = 0
    while True:
        toks = tokenize(text)
        hit = None
        for i in range(len(toks)):
            if _seq(toks, i, [".", "to_le_bytes", "(", ")"]):
                hit = i
                break
        if hit is None:
            break
        i = hit
        if toks[i - 1].text == ")":
            depth, j = 0, i - 1
            while j >= 0:
                if toks[j].text == ")":
                    depth += 1
                elif toks[j].text == "(":
                    depth -= 1
                    if depth == 0:
                        break
                j -= 1
            r0 = j
        elif toks[i - 1].kind == "id":
            r0 = i - 1
        else:
            raise Unsupported("R5: receiver of to_le_bytes")
        X = text[toks[r0].start:toks[i].start]
        text = text[:toks[r0].start] + "__to_le_bytes(%s)" % X + text[toks[i + 3].end:]
        n += 1
    if n == 0:
        raise Unsupported("R5 matches 0 times")
    return text


def rule_R6(text):
    """E.iter().map(|&v| M).collect()
       -> ({ let mut __v = Vec::new(); for __r in E.iter() { let v = *__r; __v.push(M); } __v })"""
    toks = tokenize(text)
    hits = [i for i in range(len(toks))
            if _seq(toks, i, [".", "iter", "(", ")", ".", "map", "(", "|", "&"])
            and toks[i + 9].kind == "id" and toks[i + 10].text == "|"]
    if len(hits) != 1:
        raise Unsupported("R6 matches %d times" % len(hits))
    i = hits[0]
    v = toks[i + 9].text
    map_open = i + 6
    map_close = match_close(toks, map_open)
    if not _seq(toks, map_close + 1, [".", "collect", "(", ")"]):
        raise Unsupported("R6: map not followed by collect()")
    e0 = _expr_start(toks, i, 0)
    # a struct-literal field `name: E...` : the receiver starts after the colon
    j = i - 1
    while j >= e0:
        if toks[j].text == ":" :
            e0 = j + 1
            break
        j -= 1
    E = text[toks[e0].start:toks[i].start].strip()
    M = text[toks[i + 10].end:toks[map_close].start].strip()
    new = "({ let mut __v = Vec::new(); for __r in %s.iter() { let %s = *__r; __v.push(%s); } __v })" % (E, v, M)
    return text[:toks[e0].start] + new + text[toks[map_close + 4].end:]


def _let_type(text, pos):
    """type annotation of the `let x: T =` binding that ends right before text[pos:], or None"""
    m = re.search(r"let\s+(?:mut\s+)?\w+\s*:\s*([^=;]+?)\s*=\s*$", text[:pos])
    return m.group(1) if m else None


def rule_R7(text):
    """E.iter().filter(|v| P).collect()
       -> ({ let mut __v = Vec::new(); for __r in E.iter() { let v = &__r; if P { __v.push(__r); } } __v })"""
    toks = tokenize(text)
    hits = [i for i in range(len(toks))
            if _seq(toks, i, [".", "iter", "(", ")", ".", "filter", "(", "|"])
            and toks[i + 8].kind == "id" and toks[i + 9].text == "|"]
    if len(hits) != 1:
        raise Unsupported("R7 matches %d times" % len(hits))
    i = hits[0]
    v = toks[i + 8].text
    f_open = i + 6
    f_close = match_close(toks, f_open)
    if not _seq(toks, f_close + 1, [".", "collect", "(", ")"]):
        raise Unsupported("R7: filter not followed by collect()")
    e0 = _expr_start(toks, i, 0)
    E = text[toks[e0].start:toks[i].start].strip()
    P = text[toks[i + 9].end:toks[f_close].start].strip()
    ty = _let_type(text, toks[e0].start)
    decl = "let mut __v: %s = Vec::new();" % ty if ty else "let mut __v = Vec::new();"
    new = "({ %s for __r in %s.iter() { let %s = &__r; if %s { __v.push(__r); } } __v })" % (decl, E, v, P)
    return text[:toks[e0].start] + new + text[toks[f_close + 4].end:]


def rule_R8(text):
    """E.iter().map(|v| M).collect()   (closure parameter without a pattern)
       -> ({ let mut __v = Vec::new(); for __r in E.iter() { let v = __r; __v.push(M); } __v })"""
    toks = tokenize(text)
    hits = [i for i in range(len(toks))
            if _seq(toks, i, [".", "iter", "(", ")", ".", "map", "(", "|"])
            and toks[i + 8].kind == "id" and toks[i + 9].text == "|"]
    if len(hits) != 1:
        raise Unsupported("R8 matches %d times" % len(hits))
    i = hits[0]
    v = toks[i + 8].text
    m_open = i + 6
    m_close = match_close(toks, m_open)
    if not _seq(toks, m_close + 1, [".", "collect", "(", ")"]):
        raise Unsupported("R8: map not followed by collect()")
    e0 = _expr_start(toks, i, 0)
    E = text[toks[e0].start:toks[i].start].strip()
    M = text[toks[i + 9].end:toks[m_close].start].strip()
    ty = _let_type(text, toks[e0].start)
    decl = "let mut __v: %s = Vec::new();" % ty if ty else "let mut __v = Vec::new();"
    new = "({ %s for __r in %s.iter() { let %s = __r; __v.push(%s); } __v })" % (decl, E, v, M)
    return text[:toks[e0].start] + new + text[toks[m_close + 4].end:]


def rule_R9(text):
    """E.iter().for_each(|v| B);   (closure parameter without a pattern)
       ->  for __r in E.iter() { let v = __r; B; }"""
    toks = tokenize(text)
    hits = [i for i in range(len(toks))
            if _seq(toks, i, [".", "iter", "(", ")", ".", "for_each", "(", "|"])
            and toks[i + 8].kind == "id" and toks[i + 9].text == "|"]
    if len(hits) != 1:
        raise Unsupported("R9 matches %d times" % len(hits))
    i = hits[0]
    v = toks[i + 8].text
    call_open = i + 6
    call_close = match_close(toks, call_open)
    if toks[call_close + 1].text != ";":
        raise Unsupported("R9: for_each not used as a statement")
    e0 = _expr_start(toks, i, 0)
    E = text[toks[e0].start:toks[i].start]
    B = text[toks[i + 9].end:toks[call_close].start].strip()
    new = "for __r in %s.iter() { let %s = __r; %s; }" % (E.strip(), v, B)
    return text[:toks[e0].start] + new + text[toks[call_close + 1].end:]


def rule_R10(text):
    """for &v in E {   ->  for __r in E.iter() { let v = *__r;     (E a plain variable: a slice or Vec)"""
    toks = tokenize(text)
    hits = [i for i in range(len(toks))
            if _seq(toks, i, ["for", "&"]) and toks[i + 2].kind == "id" and toks[i + 3].text == "in"
            and toks[i + 4].kind == "id" and toks[i + 5].text == "{"]
    if len(hits) != 1:
        raise Unsupported("R10 matches %d times" % len(hits))
    i = hits[0]
    v, E = toks[i + 2].text, toks[i + 4].text
    new = "for __r in %s.iter() { let %s = *__r;" % (E, v)
    return text[:toks[i].start] + new + text[toks[i + 5].end:]


def rule_R11(text):
    """E.iter().position(|v| P).map(|p| M);
       -> { let mut __p: Option<usize> = None; let mut __i: usize = 0;
            while __i < E.len() { let v = &E[__i]; if P { __p = Some(__i); break; } __i += 1; }
            if let Some(p) = __p { M; } }"""
    toks = tokenize(text)
    hits = [i for i in range(len(toks))
            if _seq(toks, i, [".", "iter", "(", ")", ".", "position", "(", "|"])
            and toks[i + 8].kind == "id" and toks[i + 9].text == "|"]
    if len(hits) != 1:
        raise Unsupported("R11 matches %d times" % len(hits))
    i = hits[0]
    v = toks[i + 8].text
    p_open = i + 6
    p_close = match_close(toks, p_open)
    if not _seq(toks, p_close + 1, [".", "map", "(", "|"]) or toks[p_close + 5].kind != "id" \
            or toks[p_close + 6].text != "|":
        raise Unsupported("R11: position not followed by map(|p| ..)")
    pv = toks[p_close + 5].text
    m_open = p_close + 3
    m_close = match_close(toks, m_open)
    if toks[m_close + 1].text != ";":
        raise Unsupported("R11: not used as a statement")
    e0 = _expr_start(toks, i, 0)
    E = text[toks[e0].start:toks[i].start].strip()
    P = text[toks[i + 9].end:toks[p_close].start].strip()
    M = text[toks[p_close + 6].end:toks[m_close].start].strip()
    new = ("{ let mut __p: Option<usize> = None; let mut __i: usize = 0; while __i < %s.len() { let %s = &%s[__i]; "
           "if %s { __p = Some(__i); break; } __i += 1; } if let Some(%s) = __p { %s; } }" % (E, v, E, P, pv, M))
    return text[:toks[e0].start] + new + text[toks[m_close + 1].end:]


RULES = {"R1": rule_R1, "R2": rule_R2, "R3": rule_R3, "R4": rule_R4, "R5": rule_R5, "R6": rule_R6,
         "R7": rule_R7, "R8": rule_R8, "R9": rule_R9, "R10": rule_R10, "R11": rule_R11}

RULE_TEXT = {
    "R9": "E.iter().for_each(|v| B);  =>  for __r in E.iter() { let v = __r; B; }",
    "R10": "for &v in E {  =>  for __r in E.iter() { let v = *__r;",
    "R11": "E.iter().position(|v| P).map(|p| M);  =>  { let mut __p: Option<usize> = None; let mut __i: usize = 0; "
           "while __i < E.len() { let v = &E[__i]; if P { __p = Some(__i); break; } __i += 1; } if let Some(p) = __p { M; } }",
    "R7": "E.iter().filter(|v| P).collect()  =>  ({ let mut __v = Vec::new(); for __r in E.iter() { let v = &__r; "
          "if P { __v.push(__r); } } __v })  (__v takes the type annotation of the enclosing `let x: T =`, if any)",
    "R8": "E.iter().map(|v| M).collect()  =>  ({ let mut __v = Vec::new(); for __r in E.iter() { let v = __r; "
          "__v.push(M); } __v })  (__v takes the type annotation of the enclosing `let x: T =`, if any)",
    "R6": "E.iter().map(|&v| M).collect()  =>  ({ let mut __v = Vec::new(); for __r in E.iter() { let v = *__r; "
          "__v.push(M); } __v })",
    "R5": "X.to_le_bytes()  =>  __to_le_bytes(X)  (call redirected to a wrapper with the assumed little-endian contract; "
          "Verus cannot attach a specification to the core method)",
    "R4": "E.iter().any(|v| P)  =>  ({ let mut __a = false; for __r in E.iter() { let v = __r; if P "
          "{ __a = true; break; } } __a })",
    "R1": "E.iter().for_each(|&v| B);  =>  for __r in E.iter() { let v = *__r; B; }",
    "R2": "E.iter().map(|&v| M).any(|s| P)  =>  { let mut __a = false; for __r in E.iter() "
          "{ let v = *__r; let s = M; if P { __a = true; break; } } __a }",
    "R3": "S.windows(2).take_while(|p| P).count()  =>  ({ let mut __n: usize = 0; while __n + 1 "
          "< S.len() { let p = &S[__n..__n + 2]; if !(P) { break; } __n += 1; } __n })",
}


def drop_log(text, dropped):
    toks = tokenize(text)
    edits = []
    i = 0
    while i < len(toks):
        for m in LOG_MACROS:
            parts = re.split(r"(::)", m)
            parts = [p for p in parts if p]
            if _seq(toks, i, parts + ["!"]) and toks[i + len(parts) + 1].text == "(" and \
                    (i == 0 or toks[i - 1].text in (";", "{", "}", "=>")):
                close = match_close(toks, i + len(parts) + 1)
                end = close
                arm = i > 0 and toks[i - 1].text == "=>"      # `pat => log::warn!(..),` : the arm's value becomes ()
                if not arm and close + 1 < len(toks) and toks[close + 1].text == ";":
                    end = close + 1
                edits.append((toks[i].start, toks[end].end, "()" if arm else "();"))
                dropped.append("log statement: " + re.sub(r"\s+", " ", text[toks[i].start:toks[end].end])[:80])
                i = end
                break
        i += 1
    for a, b, rep in reversed(edits):
        text = text[:a] + rep + text[b:]
    return text


# --------------------------------------------------------------------------------------

def _splice_fn(text, d, where, body_off=None):
    """text: function item text.  d: directive dict.  Returns text with contracts spliced.
    body_off: char offset of the body's '{' when the caller built the header itself (fragments)."""
    for r in d.get("rules", []):
        text = RULES[r](text)
    if d.get("drop_log"):
        text = drop_log(text, d["_dropped"])
    toks = tokenize(text)
    edits = []    # (offset, insert_text, replace_len)
    fn_i = next(i for i, t in enumerate(toks) if t.text == "fn")
    if "vis" in d:
        edits.append((toks[0].start, d["vis"] + (" " if d["vis"] else ""), toks[fn_i].start - toks[0].start))
    if d.get("rename"):
        nm = toks[fn_i + 1]
        edits.append((nm.start, d["rename"], nm.end - nm.start))
    if body_off is not None:
        body_open = next(i for i, t in enumerate(toks) if t.start == body_off)
    else:
        body_open = _body_brace(toks, fn_i)
    # return value naming
    if d.get("ret"):
        arrow = None
        j = fn_i + 1
        while j < body_open:
            if toks[j].text in ("(", "["):
                j = match_close(toks, j)
            elif toks[j].text == "->":
                arrow = j
                break
            j += 1
        if arrow is None:
            raise LostAnchor("%s: no return type to name" % where)
        # type extends to 'where' at depth 0 or body brace
        k = arrow + 1
        end = body_open
        depth = 0
        while k < body_open:
            if toks[k].text in ("(", "["):
                k = match_close(toks, k)
            elif toks[k].kind == "id" and toks[k].text == "where":
                end = k
                break
            k += 1
        ty = text[toks[arrow + 1].start:toks[end - 1].end]
        edits.append((toks[arrow + 1].start, "(%s: %s)" % (d["ret"], ty), toks[end - 1].end - toks[arrow + 1].start))
    if d.get("sig"):
        edits.append((toks[body_open].start, "\n" + d["sig"] + "\n", 0))
    if toks[body_open].text == ";":
        if d.get("loops") or d.get("proofs"):
            raise Unsupported("%s: loop/proof directives on a bodyless fn" % where)
        edits.sort(key=lambda e: e[0], reverse=True)
        for off, ins, rl in edits:
            text = text[:off] + ins + text[off + rl:]
        return text
    body_close = match_close(toks, body_open)
    loops = _loops(toks, body_open, body_close)
    for n, (it, spec) in d.get("loops", {}).items():
        if n < 1 or n > len(loops):
            raise LostAnchor("%s: loop %d not found (function has %d loops)" % (where, n, len(loops)))
        li = loops[n - 1]
        blk = _block_after(toks, li)
        if it:
            if toks[li].text != "for":
                raise LostAnchor("%s: loop %d is not a for loop" % (where, n))
            k = li + 1
            while not (toks[k].kind == "id" and toks[k].text == "in"):
                k += 1
            edits.append((toks[k].end, " %s:" % it, 0))
        edits.append((toks[blk].start, "\n" + spec + "\n", 0))
    for (blockspec, pos, k, ptext) in d.get("proofs", []):
        blk = _find_block(toks, body_open, blockspec)
        if pos in ("before", "after"):
            # relative to a whole loop: right before its keyword / right after its closing brace
            parts = blockspec.split()
            if parts[0] != "loop":
                raise Unsupported("%s: before/after only for loops" % where)
            li = loops[int(parts[1]) - 1]
            off = toks[li].start if pos == "before" else toks[match_close(toks, blk)].end
            edits.append((off, "\n" + ptext + "\n", 0))
            continue
        if pos in ("before-matching", "after-matching"):
            # relative to the ONE statement of the block whose text matches the regex (robust against statements inserted elsewhere)
            st = _statements(toks, blk)
            hits = [(a, b) for (a, b) in st if re.search(k, text[toks[a].start:toks[b].end])]
            if len(hits) != 1:
                raise LostAnchor("%s: %s: %d statements match /%s/" % (where, blockspec, len(hits), k))
            a, b = hits[0]
            off = toks[a].start if pos == "before-matching" else toks[b].end
            edits.append((off, "\n" + ptext + "\n", 0))
            continue
        if pos == "at-start":
            off = toks[blk].end
        elif pos == "at-end":
            off = toks[match_close(toks, blk)].start
        else:
            st = _statements(toks, blk)
            if k < 1 or k > len(st):
                raise LostAnchor("%s: %s has %d statements, wanted %d" % (where, blockspec, len(st), k))
            a, b = st[k - 1]
            off = toks[a].start if pos == "before-stmt" else toks[b].end
        edits.append((off, "\n" + ptext + "\n", 0))
    edits.sort(key=lambda e: e[0], reverse=True)
    for off, ins, rl in edits:
        text = text[:off] + ins + text[off + rl:]
    return text


def vacuity_twin(text):
    """text: a spliced fn item.  Returns a copy with the same header (signature + spec
    clauses) named vacuity__<name> whose body asserts false.  The runner requires every
    vacuity__ function to FAIL: if it verifies, the precondition is contradictory."""
    toks = tokenize(text)
    fn_i = next(i for i, t in enumerate(toks) if t.text == "fn")
    if toks[-1].text != "}":
        return ""      # bodyless (trait method declaration)
    # the body is the brace group closed by the last token (spec clauses may contain braces)
    depth = 0
    body_open = None
    for j in range(len(toks) - 1, -1, -1):
        t = toks[j]
        if t.kind == "punct":
            if t.text in (")", "]", "}"):
                depth += 1
            elif t.text in ("(", "[", "{"):
                depth -= 1
                if depth == 0:
                    body_open = j
                    break
    nm = toks[fn_i + 1]
    header = text[:nm.start] + "vacuity__" + nm.text + text[nm.end:toks[body_open].start]
    return header + "{ proof { assert(false); } vstd::pervasive::unreached() }"


def _strip_attrs(text):
    toks = tokenize(text)
    i = 0
    cut = []
    while i < len(toks) and toks[i].text == "#":
        close = match_close(toks, i + 1)
        cut.append((toks[i].start, toks[close].end))
        i = close + 1
    for a, b in reversed(cut):
        text = text[:a] + text[b:]
    return text.lstrip()


def _item_with_attrs(src, item, toks):
    """extend item start backwards over attributes (doc comments are comments and are
    not tokens)."""
    i = item.tok_lo
    return src[toks[i].start:item.end]


def _attr_start(src, toks, item):
    # walk back over `#[...]` groups immediately preceding the item
    i = item.tok_lo
    start = item.start
    while i >= 2 and toks[i - 1].text == "]":
        # find matching '['
        depth = 0
        j = i - 1
        while j >= 0:
            if toks[j].text == "]":
                depth += 1
            elif toks[j].text == "[":
                depth -= 1
                if depth == 0:
                    break
            j -= 1
        if j >= 1 and toks[j - 1].text == "#":
            start = toks[j - 1].start
            i = j - 1
        else:
            break
    return start


def _restrict_struct(text, keep, generics, open_, where):
    """text: `[pub] struct Name<..> [where ..] { fields }`.  Returns `pub struct Name<generics> { pub f: T, .. }` with only
    the fields named in `keep` (declarations verbatim, made pub), in source order; without the closing brace if open_."""
    m = re.match(r"\s*(?:pub(?:\([^)]*\))?\s+)?struct\s+(\w+)", text)
    if not m:
        raise Unsupported("%s: fields= on a non-struct item" % where)
    name = m.group(1)
    b0 = text.find("{")
    b1 = text.rfind("}")
    if b0 < 0 or b1 < b0:
        raise Unsupported("%s: fields= needs a struct with named fields" % where)
    body = text[b0 + 1:b1]
    # drop comments
    body = re.sub(r"//[^\n]*", "", body)
    body = re.sub(r"/\*.*?\*/", "", body, flags=re.S)
    fields, depth, cur = [], 0, ""
    k = 0
    while k < len(body):
        ch = body[k]
        if ch in "([{<":
            depth += 1
        elif ch in ")]}":
            depth -= 1
        elif ch == ">" and not (k > 0 and body[k - 1] == "-"):
            depth -= 1
        if ch == "," and depth == 0:
            fields.append(cur)
            cur = ""
        else:
            cur += ch
        k += 1
    if cur.strip():
        fields.append(cur)
    decls = {}
    order = []
    for f in fields:
        f = re.sub(r"#\[[^\]]*\]", "", f).strip()
        mf = re.match(r"(?:pub(?:\([^)]*\))?\s+)?(\w+)\s*:\s*(.+)$", f, re.S)
        if not mf:
            raise Unsupported("%s: cannot parse field %r" % (where, f[:40]))
        decls[mf.group(1)] = re.sub(r"\s+", " ", mf.group(2).strip())
        order.append(mf.group(1))
    if keep and all(k.startswith("!") for k in keep):
        # `fields=!a,!b`: every field of the source's struct EXCEPT the named ones (which the template supplies as stand-ins)
        excl = [k[1:] for k in keep]
        for kf in excl:
            if kf not in decls:
                raise LostAnchor("%s: field %s not found" % (where, kf))
        keep = [f for f in order if f not in excl]
    for kf in keep:
        if kf not in decls:
            raise LostAnchor("%s: field %s not found" % (where, kf))
    lines = ["pub struct %s%s {" % (name, generics)]
    for f in order:
        if f in keep:
            lines.append("    pub %s: %s," % (f, decls[f]))
    if not open_:
        lines.append("}")
    return "\n".join(lines)


def _apply_binds(full, searched, d, where, ex):
    for nm, rx in d.get("binds", []):
        m = re.search(rx, searched, re.M)
        if not m or not re.fullmatch(r"[A-Za-z_][A-Za-z0-9_]*", m.group(1) or ""):
            raise LostAnchor("%s: bind %s /%s/ does not match" % (where, nm, rx))
        full = full.replace("${%s}" % nm, m.group(1))
        ex.substs.append("%s: ${%s} = %s (name of a local taken from the source)" % (where, nm, m.group(1)))
    return full


def _frag_probe(src, item, d, where):
    """raise LostAnchor/Unsupported if the fragment anchors do not resolve (used for //@optional)."""
    if item.body_open is None:
        raise LostAnchor("%s has no body" % where)
    body = src[item.body_open:item.body_close + 1]
    m1 = re.search(d["start"], body, re.M)
    if not m1:
        raise LostAnchor("%s: start anchor not found" % where)
    sf = m1.start()
    if d.get("start_after"):
        nl = body.find("\n", m1.end())
        if nl < 0:
            raise LostAnchor("nothing after start")
        sf = nl + 1
    if not re.compile(d["stop"], re.M).search(body, sf):
        raise LostAnchor("%s: stop anchor not found" % where)


def assemble(template_path, repo):
    """Returns (assembled_text, Extraction)."""
    ex = Extraction()
    with open(template_path, encoding="utf-8") as f:
        lines = f.read().split("\n")
    out = []
    i = 0

    def emit(text, file=None, src_line=None):
        start = len(out) + 1
        out.extend(text.split("\n"))
        if file is not None:
            ex.linemap.append((start, len(out), file, src_line))

    while i < len(lines):
        ln = lines[i]
        s = ln.strip()
        if not s.startswith("//@"):
            out.append(ln)
            i += 1
            continue
        mi = re.match(r"//@include\s+(\S+)$", s)
        if mi:
            inc = os.path.join(os.path.dirname(template_path), mi.group(1))
            with open(inc, encoding="utf-8") as f:
                lines[i:i + 1] = f.read().split("\n")
            continue
        m = re.match(r"//@(itemx|item|fn|frag)\s+(\S+)\s*::\s*(.*)$", s)
        if not m:
            raise Unsupported("template %s line %d: bad directive %r" % (template_path, i + 1, s))
        kind, rel, rest = m.group(1), m.group(2), m.group(3)
        opts = set()
        segs = [x.strip() for x in re.split(r"\s+::\s+", rest)]     # " :: " separates segments; a path like std::hash::Hash stays whole
        # trailing options on the last segment for //@item
        if kind == "item":
            last = segs[-1].split()
            derive = None
            keep_fields = None
            generics = ""
            while last and (last[-1] in ("strip-attrs", "open") or last[-1].startswith(("derive=", "fields=", "generics="))):
                o = last.pop()
                if o.startswith("derive="):
                    derive = o[len("derive="):]
                    o = "strip-attrs"
                elif o.startswith("fields="):
                    keep_fields = [x for x in o[len("fields="):].split(",") if x]
                    o = "strip-attrs"
                elif o.startswith("generics="):
                    generics = o[len("generics="):]
                    continue
                opts.add(o)
            segs[-1] = " ".join(last)
        src = _read(repo, rel)
        item, toks = find_item(src, segs)
        where = "%s :: %s" % (rel, " :: ".join(segs))
        if kind == "item":
            a = _attr_start(src, toks, item)
            text = src[a:item.end]
            if "strip-attrs" in opts:
                stripped = text[:len(text) - len(src[item.start:item.end])]
                if stripped.strip():
                    ex.dropped.append("attributes on %s: %s" % (where, re.sub(r"\s+", " ", stripped.strip())))
                text = src[item.start:item.end]
                if derive:
                    text = "#[derive(%s)]\n" % derive.replace(",", ", ") + text
            if keep_fields is not None:
                text = _restrict_struct(src[item.start:item.end], keep_fields, generics, "open" in opts, where)
                if derive:
                    text = "#[derive(%s)]\n" % derive.replace(",", ", ") + text
                ex.dropped.append("fields of %s not in %s (stand-in struct: kept fields verbatim, generics -> %r)"
                                  % (where, keep_fields, generics))
            ex.items.append({"file": rel, "path": segs, "line": _line_of(src, item.start)})
            emit(text, rel, _line_of(src, item.start))
            i += 1
            continue
        # block directives
        d = {"rules": [], "loops": {}, "proofs": [], "_dropped": ex.dropped, "substs": []}
        cur = None
        buf = []

        def flush():
            nonlocal cur, buf
            if cur is None:
                return
            text = "\n".join(buf)
            if cur[0] == "sig":
                d["sig"] = text
            elif cur[0] == "loop":
                d["loops"][cur[1]] = (cur[2], text)
            elif cur[0] == "proof":
                d["proofs"].append((cur[1], cur[2], cur[3], text))
            elif cur[0] in ("wrap", "pre", "post"):
                d[cur[0]] = text
            cur, buf = None, []

        i += 1
        while i < len(lines):
            s2 = lines[i].strip()
            if s2.startswith("//@end"):
                flush()
                break
            if s2.startswith("//@"):
                flush()
                body = s2[3:].strip()
                key, _, arg = body.partition(" ")
                arg = arg.strip()
                if key == "ret":
                    d["ret"] = arg
                elif key == "rename":
                    d["rename"] = arg
                elif key == "vis":
                    d["vis"] = arg
                elif key == "rule":
                    d["rules"].append(arg)
                elif key == "drop-log":
                    d["drop_log"] = True
                elif key == "novacuity":
                    d["novacuity"] = True
                elif key == "optional":
                    d["optional"] = True
                elif key == "sig":
                    cur = ("sig",)
                elif key == "loop":
                    mm = re.match(r"(\d+)(?:\s+iter=(\w+))?$", arg)
                    cur = ("loop", int(mm.group(1)), mm.group(2))
                elif key == "proof":
                    mx = re.match(r"(body|loop \d+|if \d+|else \d+)\s+(before-matching|after-matching)\s+(.+)$", arg)
                    if mx:
                        cur = ("proof", mx.group(1), mx.group(2), mx.group(3).strip())
                    else:
                        mm = re.match(r"(body|loop \d+|if \d+|else \d+)\s+(at-start|at-end|before-stmt|after-stmt|before|after)(?:\s+(\d+))?$", arg)
                        if not mm:
                            raise Unsupported("bad //@proof %r" % arg)
                        cur = ("proof", mm.group(1), mm.group(2), int(mm.group(3) or 0))
                elif key in ("wrap", "pre", "post"):
                    cur = (key,)
                elif key == "start":
                    d["start"] = arg
                elif key == "stop":
                    d["stop"] = arg
                elif key == "start-after":
                    d["start"] = arg
                    d["start_after"] = True
                elif key == "stop-before":
                    d["stop"] = arg
                    d["stop_before"] = True
                elif key == "bind":
                    # `//@bind NAME <regex>`: group 1 of the regex, searched in the extracted text, is an identifier of the
                    # source (a local's name); `${NAME}` in the template's contract text stands for it (robust to renames)
                    nm, _, rx = arg.partition(" ")
                    d.setdefault("binds", []).append((nm.strip(), rx.strip()))
                elif key in ("subst", "subst?"):
                    # `//@subst? a => b`: applied where it matches; a miss is not a lost anchor (the contract must then
                    # notice what the missing text means)
                    a, _, b = arg.partition("=>")
                    d["substs"].append((a.strip(), b.strip()) if key == "subst" else (a.strip(), b.strip(), True))
                else:
                    raise Unsupported("unknown directive %r" % s2)
            else:
                buf.append(lines[i])
            i += 1
        else:
            raise Unsupported("unterminated block for %s" % where)
        i += 1
        if kind == "itemx":
            # verbatim item with listed textual substitutions (e.g. an elided 'static lifetime Verus wants spelled out)
            text = src[item.start:item.end]
            for sb_ in d["substs"]:
                a_, b_ = sb_[0], sb_[1]
                text, nsub = re.subn(a_, b_, text)
                if nsub == 0:
                    if len(sb_) > 2:
                        continue
                    raise LostAnchor("%s: subst /%s/ does not match" % (where, a_))
                ex.substs.append("%s: s/%s/%s/ (%d)" % (where, a_, b_, nsub))
            ex.items.append({"file": rel, "path": segs, "line": _line_of(src, item.start)})
            emit(text, rel, _line_of(src, item.start))
            continue
        if kind == "fn":
            a = item.start
            text = src[a:item.end]
            text = _splice_fn(text, d, where)
            text = _apply_binds(text, src[a:item.end], d, where, ex)
            tier = "T2" if d["rules"] else "T1"
            ex.functions.append({"file": rel, "path": segs, "tier": tier, "rules": list(d["rules"]),
                                 "line": _line_of(src, a), "end_line": _line_of(src, item.end)})
            emit(text, rel, _line_of(src, a))
            if not d.get("novacuity"):
                emit(vacuity_twin(text))
        else:
            # T3 fragment
            if d.get("optional"):
                try:
                    _frag_probe(src, item, d, where)
                except (LostAnchor, Unsupported) as e:
                    ex.dropped.append("optional fragment skipped (%s)" % e)
                    continue
            if item.body_open is None:
                raise LostAnchor("%s has no body" % where)
            body = src[item.body_open:item.body_close + 1]
            m1 = re.search(d["start"], body, re.M)
            if not m1:
                raise LostAnchor("%s: start anchor /%s/ not found" % (where, d["start"]))
            ls = body.rfind("\n", 0, m1.start()) + 1
            search_from = m1.start()
            if d.get("start_after"):
                nl = body.find("\n", m1.end())
                if nl < 0:
                    raise LostAnchor("%s: nothing after start anchor" % where)
                ls = nl + 1
                search_from = ls
            m2 = re.compile(d["stop"], re.M).search(body, search_from)
            if not m2:
                raise LostAnchor("%s: stop anchor /%s/ not found" % (where, d["stop"]))
            le = body.find("\n", m2.end())
            le = len(body) if le < 0 else le
            if d.get("stop_before"):
                le = body.rfind("\n", 0, m2.start())
                if le < ls:
                    raise LostAnchor("%s: stop anchor precedes start" % where)
            frag = body[ls:le]
            # the fragment must be delimiter-balanced
            ft = tokenize(frag)
            depth = 0
            for t in ft:
                if t.kind == "punct":
                    if t.text in OPEN:
                        depth += 1
                    elif t.text in (")", "]", "}"):
                        depth -= 1
                        if depth < 0:
                            raise Unsupported("%s: fragment is not balanced" % where)
            if depth != 0:
                raise Unsupported("%s: fragment is not balanced" % where)
            if d.get("drop_log"):
                frag = drop_log(frag, ex.dropped)
            for r_ in d["rules"]:
                frag = RULES[r_](frag)
            for sb_ in d["substs"]:
                a_, b_ = sb_[0], sb_[1]
                frag, nsub = re.subn(a_, b_, frag)
                if nsub == 0:
                    if len(sb_) > 2:
                        ex.substs.append("%s: optional s/%s/%s/ did not match (0)" % (where, a_, b_))
                        continue
                    raise LostAnchor("%s: subst /%s/ does not match" % (where, a_))
                ex.substs.append("%s: s/%s/%s/ (%d)" % (where, a_, b_, nsub))
            src_line = _line_of(src, item.body_open + ls)
            wrapper = d.get("wrap", "").rstrip()
            text = wrapper + "\n" + (d.get("sig", "") + "\n" if d.get("sig") else "") + "{\n" + \
                (d.get("pre", "") + "\n" if d.get("pre") else "")
            pre_lines = text.count("\n")
            ex.frags.append({"file": rel, "path": segs, "tier": "T3", "line": src_line, "rules": list(d["rules"]),
                             "end_line": _line_of(src, item.body_open + le),
                             "start": d["start"], "stop": d["stop"]})
            start_out = len(out) + 1 + pre_lines
            full = text + frag + "\n" + (d.get("post", "") + "\n" if d.get("post") else "") + "}"
            if d["loops"] or d["proofs"]:
                hdr = wrapper + "\n" + (d.get("sig", "") + "\n" if d.get("sig") else "")
                d2 = {"loops": d["loops"], "proofs": d["proofs"], "_dropped": ex.dropped}
                full = _splice_fn(full, d2, where, body_off=len(hdr))
            full = _apply_binds(full, frag, d, where, ex)
            out.extend(full.split("\n"))
            ex.linemap.append((start_out, start_out + frag.count("\n"), rel, src_line))
            if not d.get("novacuity"):
                emit(vacuity_twin(full))
    return "\n".join(out), ex


def map_line(ex, out_line):
    for a, b, f, s in ex.linemap:
        if a <= out_line <= b:
            return f, s + (out_line - a)
    return None, None


if __name__ == "__main__":
    txt, ex = assemble(sys.argv[1], sys.argv[2] if len(sys.argv) > 2 else "/repo")
    sys.stdout.write(txt)
