#!/bin/bash
# seedsweep.sh [confirm] <seed-dir>...   -- evaluate seeded changes one after another (never concurrently with other checks)
# For each directory: [confirm it in the scratch worktree /tmp/bita-fix], apply patch.diff to /repo, run the check(s) of its
# property, undo.  Appends one line per seed to /verif/seeded/SWEEP.tsv:  <seed> <property> <rc> <first finding>
CONFIRM=""; if [ "$1" = "confirm" ]; then CONFIRM=confirm; shift; fi
OUT=/verif/seeded/SWEEP.tsv
for D in "$@"; do
  D=$(readlink -f ${D%/}); N=$(basename $D)
  P=$(python3 -c "import json,sys;print(json.load(open('$D/meta.json'))['property'])" 2>/dev/null || true)
  [ -n "$P" ] || P=$(echo $N | sed -E 's/^(C[0-9]+).*/\1/')
  if [ -n "$CONFIRM" ]; then
    if [ -f $D/demo.rs ]; then /verif/engine/seedeval.sh $D $P confirm > /tmp/sweep_one.txt 2>&1
    else
      ( cd /tmp/bita-fix && git checkout -q -- . && git clean -fdq && git apply $D/patch.diff && R=$(CARGO_TARGET_DIR=/tmp/bita-fix-target cargo test --offline --workspace 2>&1 | grep -E "^test result" | awk '{p+=$4; f+=$6} END {print p, f}'); echo "CONFIRM: suite with patch: passed/failed = $R";
        S=$(ls $D/demo.sh $D/cli_demo.sh 2>/dev/null | head -1); ROOT=/tmp/bita-fix CARGO_TARGET_DIR=/tmp/bita-fix/target sh $S > /tmp/seed_demo_with.txt 2>&1; echo "CONFIRM: demo with patch rc=$?"; git checkout -q -- .; ROOT=/tmp/bita-fix CARGO_TARGET_DIR=/tmp/bita-fix/target sh $S > /tmp/seed_demo_without.txt 2>&1; echo "CONFIRM: demo without patch rc=$?"; git checkout -q -- . ; git clean -fdq ) > /tmp/sweep_one.txt 2>&1
      /verif/engine/seedeval.sh $D $P >> /tmp/sweep_one.txt 2>&1
    fi
  else
    /verif/engine/seedeval.sh $D $P > /tmp/sweep_one.txt 2>&1
  fi
  C=$(grep -E "^CONFIRM" /tmp/sweep_one.txt | sed -E 's/CONFIRM: //' | tr '\n' ';')
  grep -E "^CHECK" /tmp/sweep_one.txt | while read -r L; do printf "%s\t%s\t%s\n" "$N" "$L" "$C" | cut -c1-700 >> $OUT; done
  grep -qE "^CHECK" /tmp/sweep_one.txt || printf "%s\tNO-CHECK-LINE\t%s\n" "$N" "$(head -3 /tmp/sweep_one.txt | tr '\n' ' ')" >> $OUT
done
echo SWEEP-DONE >> $OUT
