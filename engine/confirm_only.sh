#!/bin/bash
# (copied from the session script /tmp/confirm_only.sh referenced by the meta.json files of rounds 6-9)
# confirm_only.sh <seed-dir>... : patch applies; suite with patch; demo fails with / passes without. No /repo or /verif access.
WT=/tmp/bita-fix; TGT=/tmp/bita-fix-target
[ -d $WT ] || git -C /repo worktree add --detach $WT HEAD >/dev/null 2>&1
for SEED in "$@"; do
  N=$(basename $SEED)
  cd $WT && git checkout -q --detach $(git -C /repo rev-parse HEAD) && git checkout -q -- . && git clean -fdq
  git apply "$SEED/patch.diff" || { echo "$N CONFIRM: patch does not apply"; continue; }
  R=$(CARGO_TARGET_DIR=$TGT cargo test --offline --workspace 2>&1 | grep -E "^test result" | awk '{p+=$4; f+=$6} END {print p, f}')
  echo "$N CONFIRM: suite with patch: passed/failed = $R"
  DEST=bitar/tests/demo.rs; PKG="-p bitar --features compress"
  if grep -q "CARGO_BIN_EXE" $SEED/demo.rs; then mkdir -p tests; DEST=tests/demo.rs; PKG="-p bita"; fi
  cp "$SEED/demo.rs" $DEST
  CARGO_TARGET_DIR=$TGT timeout 900 cargo test --offline $PKG --test demo > /tmp/confirm_with_$N.txt 2>&1; echo "$N CONFIRM: demo with patch rc=$? ($(grep -E '^test result' /tmp/confirm_with_$N.txt | head -1))"
  git checkout -q -- . ; cp "$SEED/demo.rs" $DEST
  CARGO_TARGET_DIR=$TGT timeout 900 cargo test --offline $PKG --test demo > /tmp/confirm_without_$N.txt 2>&1; echo "$N CONFIRM: demo without patch rc=$? ($(grep -E '^test result' /tmp/confirm_without_$N.txt | head -1))"
  rm -f $DEST; git checkout -q -- . && git clean -fdq
done
echo CONFIRM-DONE
