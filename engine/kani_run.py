"""Kani back end (filled in below)."""


def setup(repo):
    return 0


def run_units(kunits, repo, workdir, tier, prop):
    return []
