"""Kani back end.

The real crate is copied (rsync --checksum, without target/ and .git) from the repository's
working tree into a scratch source directory, the harness modules and contract attributes of
the requested units are injected, and `cargo kani` is run per harness.  A persistent
CARGO_TARGET_DIR under /verif/work keeps the dependency build (42 s cold, 5 s warm);
cargo's own fingerprinting decides what is rebuilt, so results always come from the
current sources.  An exclusive lock serialises concurrent checks.
"""
import concurrent.futures as cf
import fcntl
import os
import re
import shutil
import subprocess
import time

from rstok import find_item, tokenize, LostAnchor, Unsupported

HERE = os.path.dirname(os.path.abspath(__file__))
ROOT = os.path.dirname(HERE)
WORK = os.path.join(ROOT, "work", "kani")
SRC = os.path.join(WORK, "src")
TARGET = os.path.join(WORK, "target")
KANI_FLAGS = ["-Z", "function-contracts", "-Z", "stubbing"]


def _env():
    e = dict(os.environ)
    e["CARGO_NET_OFFLINE"] = "true"
    e["CARGO_TARGET_DIR"] = TARGET
    return e


def _sync(repo):
    os.makedirs(SRC, exist_ok=True)
    subprocess.run(["rsync", "-a", "--delete", "--checksum", "--exclude", "/target", "--exclude", ".git",
                    repo.rstrip("/") + "/", SRC + "/"], check=True)


def parse_desugars(path):
    """//@desugar <relpath> :: <impl seg> :: fn <name> :: <rule> :: <newname>"""
    out = []
    with open(path) as f:
        for ln in f.read().split("\n"):
            m = re.match(r"\s*//@desugar\s+(\S+)\s*::\s*(.*)$", ln)
            if m:
                parts = [x.strip() for x in m.group(2).split("::")]
                out.append((m.group(1), parts[:-2], parts[-2], parts[-1]))
    return out


def parse_harness_file(path):
    """-> (injections: {relpath: text}, attrs: [(relpath, [segs], text)])"""
    inj, attrs = {}, []
    cur = None
    buf = []

    def flush():
        nonlocal cur, buf
        if cur is None:
            return
        text = "\n".join(buf)
        if cur[0] == "inject":
            inj[cur[1]] = inj.get(cur[1], "") + "\n" + text + "\n"
        else:
            attrs.append((cur[1], cur[2], text))
        cur, buf = None, []

    with open(path) as f:
        for ln in f.read().split("\n"):
            s = ln.strip()
            m = re.match(r"//@inject\s+(\S+)$", s)
            if m:
                flush()
                cur = ("inject", m.group(1))
                continue
            m = re.match(r"//@attr\s+(\S+)\s*::\s*(.*)$", s)
            if m:
                flush()
                cur = ("attr", m.group(1), [x.strip() for x in m.group(2).split("::")])
                continue
            if s.startswith("//@end"):
                flush()
                continue
            if cur is not None:
                buf.append(ln)
    flush()
    return inj, attrs


def inject(units):
    """apply injections of all units to SRC.  Raises LostAnchor."""
    per_file_attr = {}
    per_file_inj = {}
    import extract as _ex
    for name, u in units:
        # translation validation: a desugared copy (rule applied by the same code the Verus assembler uses) next to the real fn
        for rel, segs, rule, newname in parse_desugars(os.path.join(ROOT, u["file"])):
            p = os.path.join(SRC, rel)
            if not os.path.exists(p):
                raise LostAnchor("file %s not found" % rel)
            with open(p) as f:
                src = f.read()
            item, _t = find_item(src, segs)
            impl_item, _t2 = find_item(src, segs[:-1])
            text = _ex.RULES[rule](src[item.start:item.end])
            text = re.sub(r"\bfn\s+%s\b" % re.escape(segs[-1].split()[-1]), "fn " + newname, text, count=1)
            hdr = src[impl_item.start:impl_item.body_open]
            per_file_inj[rel] = per_file_inj.get(rel, "") + "\n#[cfg(kani)]\n%s{\n%s\n}\n" % (hdr, text)
        inj, attrs = parse_harness_file(os.path.join(ROOT, u["file"]))
        for rel, text in inj.items():
            per_file_inj[rel] = per_file_inj.get(rel, "") + text
        for rel, segs, text in attrs:
            per_file_attr.setdefault(rel, []).append((segs, text))
    for rel in set(per_file_attr) | set(per_file_inj):
        p = os.path.join(SRC, rel)
        if not os.path.exists(p):
            raise LostAnchor("file %s not found" % rel)
        with open(p) as f:
            src = f.read()
        edits = []
        for segs, text in per_file_attr.get(rel, []):
            item, toks = find_item(src, segs)
            # insert before attributes preceding the item
            i = item.tok_lo
            start = item.start
            while i >= 2 and toks[i - 1].text == "]":
                depth, j = 0, i - 1
                while j >= 0:
                    if toks[j].text == "]":
                        depth += 1
                    elif toks[j].text == "[":
                        depth -= 1
                        if depth == 0:
                            break
                    j -= 1
                if j >= 1 and toks[j - 1].text == "#":
                    start = toks[j - 1].start
                    i = j - 1
                else:
                    break
            edits.append((start, text + "\n"))
        for off, text in sorted(edits, reverse=True):
            src = src[:off] + text + src[off:]
        src += per_file_inj.get(rel, "")
        with open(p, "w") as f:
            f.write(src)


RES = re.compile(r"VERIFICATION:- (SUCCESSFUL|FAILED)")
SUMMARY = re.compile(r"\*\* (\d+) of (\d+) failed")
FAILED_CHECK = re.compile(r"Failed Checks: (.*)")


def run_harness(h, crate_dir, timeout):
    cmd = ["cargo", "kani"] + KANI_FLAGS + ["--harness", h["name"]] + h.get("flags", [])
    t0 = time.time()
    try:
        p = subprocess.run(cmd, cwd=crate_dir, env=_env(), capture_output=True, text=True, timeout=timeout)
        out = p.stdout + "\n" + p.stderr
        rc = p.returncode
    except subprocess.TimeoutExpired as e:
        out = "TIMEOUT"
        rc = -9
    wall = time.time() - t0
    r = {"harness": h["name"], "cmd": "CARGO_NET_OFFLINE=true " + " ".join(cmd), "wall_s": wall, "rc": rc,
         "status": "undecided", "reason": "", "checks": 0, "failed_checks": [], "out_tail": out[-6000:]}
    if out == "TIMEOUT":
        r["reason"] = "kani timed out after %ds" % timeout
        return r
    m = RES.search(out)
    ms = SUMMARY.search(out)
    if ms:
        r["checks"] = int(ms.group(2))
    if not m:
        if "error: could not compile" in out or "error[E" in out or "error:" in out:
            errs = [ln for ln in out.split("\n") if ln.startswith("error")]
            r["reason"] = "harness does not compile / kani error: " + "; ".join(errs[:3])
        else:
            r["reason"] = "no verification result"
        return r
    if m.group(1) == "SUCCESSFUL":
        # stub lines must be present when stubs are expected
        for st in h.get("expect_stubs", []):
            if st not in out:
                r["reason"] = "expected stub %s not applied" % st
                return r
        if r["checks"] == 0:
            r["reason"] = "no checks generated"
            return r
        r["status"] = "ok"
        return r
    fails = FAILED_CHECK.findall(out)
    # unwinding assertion failures mean the bound was too small: undecided, not a violation
    desc = []
    for blk in re.split(r"\n(?=Check \d+:)", out):
        if "Status: FAILURE" in blk:
            md = re.search(r'Description: "(.*)"', blk)
            ml = re.search(r"Location: (.*)", blk)
            desc.append({"description": md.group(1) if md else "?", "location": ml.group(1).strip() if ml else "?"})
    r["failed_checks"] = desc or [{"description": f, "location": "?"} for f in fails]
    if desc and all("unwinding assertion" in d["description"] for d in desc):
        r["reason"] = "unwinding bound too small"
        return r
    r["status"] = "violated"
    return r


def playback(h, crate_dir, timeout=600):
    """ask Kani for a concrete counterexample of a failed harness (printed unit test)."""
    cmd = ["cargo", "kani"] + KANI_FLAGS + ["-Z", "concrete-playback", "--concrete-playback=print",
                                            "--harness", h["name"]] + h.get("flags", [])
    try:
        p = subprocess.run(cmd, cwd=crate_dir, env=_env(), capture_output=True, text=True, timeout=timeout)
    except subprocess.TimeoutExpired:
        return None
    out = p.stdout
    m = re.search(r"```\n(.*?)```", out, re.S)
    if not m:
        m = re.search(r"(#\[test\]\s*fn kani_concrete_playback.*?\n\})", out, re.S)
    if not m:
        return None
    test = m.group(1)
    # replay the counterexample natively against the (injected) real code
    replay_out = None
    rel = h.get("_inject_file")
    mt = re.search(r"fn (kani_concrete_playback_\w+)", test)
    if rel and mt:
        fp = os.path.join(SRC, rel)
        with open(fp) as f:
            src = f.read()
        body = src.rstrip()
        if body.endswith("}"):
            with open(fp, "w") as f:
                f.write(body[:-1] + "\n" + test + "\n}\n")
            try:
                q = subprocess.run(["cargo", "kani", "playback", "-Z", "concrete-playback", "--", mt.group(1)],
                                   cwd=crate_dir, env=_env(), capture_output=True, text=True, timeout=timeout)
                tail = (q.stdout + q.stderr)
                keep = [ln for ln in tail.split("\n") if re.search(r"panicked|test result|^test |assertion|FAILED|error", ln)]
                replay_out = "\n".join(keep[-25:])
            except subprocess.TimeoutExpired:
                replay_out = "playback timed out"
            with open(fp, "w") as f:
                f.write(src)
    return {"test": test, "native_replay": replay_out}


def setup(repo):
    """pre-build the dependency graph once (setup_cmd)."""
    os.makedirs(WORK, exist_ok=True)
    with open(os.path.join(WORK, "lock"), "w") as lk:
        fcntl.flock(lk, fcntl.LOCK_EX)
        _sync(repo)
        with open(os.path.join(SRC, "bitar", "src", "lib.rs"), "a") as f:
            f.write("\n#[cfg(kani)]\nmod verif_kani_setup { #[kani::proof] fn warm() { assert!(1 + 1 == 2); } }\n")
        p = subprocess.run(["cargo", "kani"] + KANI_FLAGS + ["--harness", "warm"], cwd=os.path.join(SRC, "bitar"),
                           env=_env(), capture_output=True, text=True)
        ok = "VERIFICATION:- SUCCESSFUL" in p.stdout
        print("kani setup: %s" % ("ok" if ok else "FAILED\n" + p.stdout[-2000:] + p.stderr[-2000:]))
        return 0 if ok else 1


def run_units(kunits, repo, workdir, tier, prop):
    os.makedirs(WORK, exist_ok=True)
    results = []
    with open(os.path.join(WORK, "lock"), "w") as lk:
        fcntl.flock(lk, fcntl.LOCK_EX)
        t0 = time.time()
        try:
            _sync(repo)
            inject(kunits)
        except (LostAnchor, Unsupported, subprocess.CalledProcessError) as e:
            for name, u in kunits:
                results.append({"unit": name, "backend": "kani", "status": "undecided", "reason": "lost anchor: %s" % e,
                                "failed": [], "functions": [], "obligations": 0, "discharged": 0})
            return results
        crate_dir = os.path.join(SRC, "bitar")
        jobs = []
        for name, u in kunits:
            inj_files = list(parse_harness_file(os.path.join(ROOT, u["file"]))[0].keys())
            for h in u["harnesses"]:
                h["_inject_file"] = inj_files[0] if inj_files else None
                if h.get("thorough_only") and tier != "thorough":
                    continue
                jobs.append((name, u, h))
        # first job alone (builds), the rest in parallel
        out = {}
        if jobs:
            name, u, h = jobs[0]
            out[(name, h["name"])] = run_harness(h, crate_dir, h.get("timeout", 600))
        with cf.ThreadPoolExecutor(max_workers=6) as pool:
            futs = {pool.submit(run_harness, h, crate_dir, h.get("timeout", 600)): (name, h["name"])
                    for name, u, h in jobs[1:]}
            for f in futs:
                out[futs[f]] = f.result()
        for name, u in kunits:
            r = {"unit": name, "backend": "kani", "status": "ok", "reason": "", "failed": [], "functions": [],
                 "obligations": 0, "discharged": 0, "bounded": [], "samples": [], "kani_functions": u.get("functions", []),
                 "assumptions": {}, "smt_ms": 0, "wall_s": 0.0, "cmd": ""}
            for h in u["harnesses"]:
                hr = out.get((name, h["name"]))
                if hr is None:
                    continue
                r["wall_s"] += hr["wall_s"]
                r["cmd"] = hr["cmd"]
                entry = {"function": "%s::%s" % (name, h["name"]), "mode": "kani", "ms": int(hr["wall_s"] * 1000),
                         "success": hr["status"] == "ok", "checks": hr["checks"]}
                if h.get("complete", False):
                    r["obligations"] += 1
                    r["functions"].append(entry)
                    if hr["status"] == "ok":
                        r["discharged"] += 1
                else:
                    r["bounded"].append({"harness": h["name"], "bound": h.get("bound", "?"), "status": hr["status"],
                                         "what": h.get("what", ""), "cbmc_checks": hr["checks"]})
                r["samples"].append({"unit": name, "backend": "kani", "obligation": h["name"], "what": h.get("what", ""),
                                     "complete": h.get("complete", False), "cbmc_checks": hr["checks"],
                                     "discharged": hr["status"] == "ok", "solver_ms": int(hr["wall_s"] * 1000)})
                if hr["status"] == "undecided":
                    r["status"] = "undecided"
                    r["reason"] = "%s: %s" % (h["name"], hr["reason"])
                    r.setdefault("diagnostics", []).append(hr["out_tail"][-1500:])
                elif hr["status"] == "violated":
                    pb = playback(h, crate_dir) if h.get("playback", True) else None
                    for fc in hr["failed_checks"][:3]:
                        r["failed"].append({"function": h["name"], "kind": "kani check failed: " + fc["description"],
                                            "line": None, "col": None,
                                            "text": "%s at %s\n\n%s" % (fc["description"], fc["location"], hr["out_tail"][-2500:]),
                                            "witness": pb["test"] if pb else None,
                                            "native_replay": pb["native_replay"] if pb else None,
                                            "cmd": hr["cmd"], "props": h.get("properties")})
            if r["failed"] and r["status"] == "ok":
                r["status"] = "violated"
            results.append(r)
    return results
