#!/usr/bin/env python3
"""Check driver.  ./check <PROPERTY-ID> [--tier quick|thorough] [--repo DIR]
                  ./check --replay <path>
                  ./check --setup
Exit status: 0 property held on everything explored (known findings aside);
             1 + 'VIOLATION property=<id> replay=<path>' for a failed obligation;
             2 undecided (lost anchor, unsupported construct, rlimit, tool failure,
               vacuity guard) -- never an alarm.
"""
import argparse
import concurrent.futures as cf
import hashlib
import json
import os
import re
import shutil
import subprocess
import sys
import time

HERE = os.path.dirname(os.path.abspath(__file__))
ROOT = os.path.dirname(HERE)
sys.path.insert(0, HERE)

import extract            # noqa: E402
import verus_run          # noqa: E402
import kani_run           # noqa: E402
import native_run         # noqa: E402
from rstok import LostAnchor, Unsupported   # noqa: E402

SAFETY_KINDS = ("arithmetic underflow/overflow", "division by zero", "bit shift", "decreases", "termination")


def load_cfg():
    with open(os.path.join(ROOT, "units", "units.json")) as f:
        return json.load(f)


def load_findings():
    p = os.path.join(ROOT, "known_findings.json")
    if not os.path.exists(p):
        return []
    with open(p) as f:
        return json.load(f).get("findings", [])


def props_for_failure(unit_cfg, fn, kind):
    """which properties a failed obligation in function fn of this unit counts against."""
    fmap = unit_cfg.get("functions", {})
    if not isinstance(fmap, dict):
        fmap = {}
    ent = fmap.get(fn) or fmap.get("*") or {}
    is_safety = any(k in kind for k in SAFETY_KINDS)
    if is_safety:
        return ent.get("safety", unit_cfg.get("safety", unit_cfg["properties"]))
    if "precondition" in kind:
        return sorted(set(ent.get("functional", unit_cfg.get("functional", unit_cfg["properties"])))
                      | set(ent.get("safety", unit_cfg.get("safety", []))))
    return ent.get("functional", unit_cfg.get("functional", unit_cfg["properties"]))


def run_verus_unit(name, ucfg, repo, workdir, tier):
    t0 = time.time()
    res = {"unit": name, "backend": "verus", "status": "undecided", "reason": "", "failed": [],
           "functions": [], "extraction": None, "assumptions": {}, "wall_s": 0.0, "smt_ms": 0}
    try:
        text, ex = extract.assemble(os.path.join(ROOT, ucfg["template"]), repo)
    except LostAnchor as e:
        res["reason"] = "lost anchor: %s" % e
        return res
    except Unsupported as e:
        res["reason"] = "unsupported construct: %s" % e
        return res
    path = os.path.join(workdir, name + ".rs")
    with open(path, "w") as f:
        f.write(text)
    res["assembled"] = path
    res["extraction"] = {"functions": ex.functions, "items": ex.items, "frags": ex.frags,
                         "dropped": ex.dropped, "substs": ex.substs}
    res["assumptions"] = verus_run.scan_assumptions(text)
    rl = ucfg.get("rlimit")
    if tier == "thorough" and rl:
        rl = rl * 2
    run = verus_run.run_verus(path, rlimit=rl, timeout=ucfg.get("timeout", 900))
    cl = verus_run.classify(text, run)
    res.update({k: cl[k] for k in ("status", "reason", "failed", "functions", "smt_ms")})
    res["cmd"] = cl["cmd"]
    res["diagnostics"] = cl.get("diagnostics", [])
    res["stderr_tail"] = run["stderr"][-4000:]
    res["wall_s"] = time.time() - t0
    res["_ex"] = ex
    return res


def finding_for(findings, prop, unit, fn, kind):
    for f in findings:
        if f.get("status") != "open":
            continue
        if f["property"] != prop:
            continue
        m = f.get("match")
        if not m:
            continue      # findings without an explicit match are reported through finding__ functions only
        if m.get("unit") and m["unit"] != unit:
            continue
        if m.get("function") and m["function"] != fn:
            continue
        if m.get("kind") and not re.search(m["kind"], kind):
            continue
        return f
    return None


def write_replay(prop, unit_res, fail, idx, extra=None):
    d = os.path.join(ROOT, "replay", prop)
    os.makedirs(d, exist_ok=True)
    fnname = re.sub(r"[^A-Za-z0-9_]+", "_", str(fail.get("function")))
    p = os.path.join(d, "%s__%s__%d.json" % (re.sub(r"[^A-Za-z0-9_]+", "_", unit_res["unit"]), fnname, idx))
    src_file, src_line = (None, None)
    ex = unit_res.get("_ex")
    if ex is not None and fail.get("line"):
        src_file, src_line = extract.map_line(ex, fail["line"])
    body = {
        "property": prop,
        "unit": unit_res["unit"],
        "backend": unit_res["backend"],
        "obligation": "%s::%s::%s" % (unit_res["unit"], fail.get("function"), fail.get("kind")),
        "function": fail.get("function"),
        "kind": fail.get("kind"),
        "assembled_file": unit_res.get("assembled"),
        "assembled_line": fail.get("line"),
        "repo_file": src_file,
        "repo_line_approx": src_line,
        "verifier_cmd": fail.get("cmd") or unit_res.get("cmd"),
        "native_replay_of_counterexample": fail.get("native_replay"),
        "verifier_output": fail.get("text"),
        "failing_input": fail.get("witness"),
        "note": "Verus produces no model; a witness is present only when a Kani/native companion found one."
        if unit_res["backend"] == "verus" else "Kani counterexample (concrete playback) below.",
    }
    if extra:
        body.update(extra)
    with open(p, "w") as f:
        json.dump(body, f, indent=1)
    return p


def check_property(prop, tier, repo, cfg, seed):
    t0 = time.time()
    pcfg = cfg["properties"][prop]
    workdir = os.path.join(ROOT, "work", prop)
    shutil.rmtree(workdir, ignore_errors=True)
    os.makedirs(workdir, exist_ok=True)
    shutil.rmtree(os.path.join(ROOT, "replay", prop), ignore_errors=True)
    findings = load_findings()
    vunits = [(n, u) for n, u in cfg["verus_units"].items() if prop in u["properties"]
              and (tier == "thorough" or not u.get("thorough_only"))]
    kunits = [(n, u) for n, u in cfg.get("kani_units", {}).items() if prop in u["properties"]
              and (tier == "thorough" or not u.get("thorough_only"))]
    results = []
    with cf.ThreadPoolExecutor(max_workers=8) as pool:
        futs = [pool.submit(run_verus_unit, n, u, repo, workdir, tier) for n, u in vunits]
        kfut = None
        if kunits:
            kfut = pool.submit(kani_run.run_units, kunits, repo, workdir, tier, prop)
        for f in futs:
            results.append(f.result())
        if kfut:
            results.extend(kfut.result())

    # ---- bounded native companions (stand-ins for code out of the verifiers' reach + witness search; never counted as proof)
    companion_infos = []
    comps = pcfg.get("companions") or ([pcfg["companion"]] if pcfg.get("companion") else [])
    for comp in comps:
        cunits = [r for r in results if r["unit"] in comp["units"]]
        trouble = [r for r in cunits if r["status"] in ("violated", "undecided")]
        if not (trouble or tier == "thorough" or comp.get("always")):
            continue
        tests = comp["tests_thorough"] if tier == "thorough" else comp["tests_quick"]
        cr = native_run.run_companion(repo, comp["file"], tests, seed=seed or 1,
                                      cases=comp.get("cases_thorough") if tier == "thorough" else comp.get("cases_quick"),
                                      stride=None if tier == "thorough" else comp.get("stride_quick"),
                                      package=comp.get("package", "bitar"), deep=(tier == "thorough"),
                                      timeout=comp.get("timeout_thorough", 1500) if tier == "thorough" else 420)
        info = {"file": comp["file"], "tests": tests, "status": cr["status"], "cases": cr["cases"],
                "wall_s": round(cr["wall_s"], 1), "cmd": cr["cmd"], "bound": comp.get("bound", "")}
        companion_infos.append(info)
        if cr["status"] == "witness":
            # only witnesses of this property's kind count (a companion file serves several properties)
            ws = [w for w in cr["witnesses"] if ('"kind":"%s"' % prop) in w]
            if not ws:
                # witnesses tagged with ANOTHER claimed property are that property's business (its own check reports them)
                ws = [w for w in cr["witnesses"] if not any(('"kind":"%s"' % q) in w for q in cfg["properties"] if q != prop)]
            if not ws:
                continue
            w = ws[0]
            attached = False
            for r in trouble:
                for fail in r.get("failed", []):
                    if not fail.get("witness"):
                        fail["witness"] = w
                        fail["native_replay"] = "found and replayed natively against the real code by %s (%s)" % (comp["file"], cr["cmd"])
                        attached = True
            if not attached:
                # no Verus verdict to attach to (unit could not be assembled, code outside any contract, or proofs pass
                # while the real code disagrees with the reference): the failing input itself is the violation
                if trouble:
                    host = trouble[0]
                else:
                    host = {"unit": "companion:" + os.path.splitext(os.path.basename(comp["file"]))[0], "backend": "native", "status": "violated",
                            "reason": "", "failed": [], "functions": [], "cmd": cr["cmd"], "wall_s": cr["wall_s"]}
                    results.append(host)
                if host is not None:
                    why = host.get("reason") if trouble else "code outside the contracted functions"
                    host.setdefault("failed", []).append({
                        "function": "native_companion", "kind": "failing input found by the bounded native companion %s (%s)" % (comp["file"], (why or "")[:200]),
                        "line": None, "col": None, "text": cr["out_tail"][-1500:], "witness": w,
                        "native_replay": "replayed natively against the real code by %s (%s)" % (comp["file"], cr["cmd"]),
                        "props": [prop]})
                    if host["status"] == "undecided":
                        host["status"] = "violated"
        elif cr["status"] == "error":
            print("companion %s could not run: %s" % (comp["file"], cr["out_tail"][-400:]), file=sys.stderr)

    violations, undecided, known = [], [], []
    obligations = discharged = 0
    fn_under_contract = []
    trusted = set(pcfg.get("trusted_base", []))
    assumptions_total = {}
    bounded = []
    samples = []
    per_unit = []
    for r in results:
        ucfg = cfg["verus_units"].get(r["unit"]) or cfg["kani_units"].get(r["unit"]) or {"properties": [prop]}
        for t in ucfg.get("trusted_base", []):
            trusted.add(t)
        for k, v in (r.get("assumptions") or {}).items():
            assumptions_total[k] = assumptions_total.get(k, 0) + v
        if r["status"] == "undecided":
            undecided.append(r)
        real = [f for f in r.get("functions", []) if not f["function"].split("::")[-1].startswith(("vacuity__", "finding__"))]
        nfail_fns = set()
        idx = 0
        for fail in r.get("failed", []):
            fname = str(fail.get("function") or "")
            if fname.startswith("finding__"):
                # a function that restates an obligation WITHOUT the carve-out of an open finding:
                # expected to fail while the finding is open
                kid = fname.split("__")[1]
                kf = next((f for f in findings if f["id"] == kid), None)
                if kf and kf.get("status") == "open":
                    if kf["property"] == prop and kid not in [k["id"] for k, _ in known]:
                        known.append((kf, fail))
                    continue
                if kf is None or kf["property"] != prop:
                    if kf is not None:
                        continue
                # listed as fixed but fails again (or not listed at all): report
                idx += 1
                path = write_replay(prop, r, fail, idx)
                violations.append((r, fail, path))
                continue
            # a spec clause may carry its own property tag:  <clause>,   // @props C15
            if not fail.get("props") and fail.get("line") and r.get("assembled") and os.path.exists(r["assembled"]):
                try:
                    with open(r["assembled"]) as fh:
                        lines_ = fh.read().split("\n")
                    mt = re.search(r"@props\s+([A-Z0-9, ]+)", lines_[fail["line"] - 1])
                    if mt:
                        fail["props"] = [x.strip() for x in mt.group(1).split(",") if x.strip()]
                except Exception:   # noqa
                    pass
            props = fail.get("props") or props_for_failure(ucfg, fail.get("function"), fail.get("kind", ""))
            nfail_fns.add(fail.get("function"))
            if prop not in props:
                continue
            kf = finding_for(findings, prop, r["unit"], fail.get("function"), fail.get("kind", ""))
            if kf:
                known.append((kf, fail))
                continue
            idx += 1
            path = write_replay(prop, r, fail, idx)
            violations.append((r, fail, path))
        if r["backend"] == "native":
            pass
        elif r["backend"] == "verus":
            obligations += len(real)
            discharged += len([f for f in real if f["success"]])
        else:
            obligations += r.get("obligations", 0)
            discharged += r.get("discharged", 0)
            bounded.extend(r.get("bounded", []))
        if r.get("extraction"):
            for f in r["extraction"]["functions"]:
                fn_under_contract.append("%s :: %s [%s%s]" % (f["file"], " :: ".join(f["path"]), f["tier"],
                                                             ("," + "+".join(f["rules"])) if f["rules"] else ""))
            for f in r["extraction"]["frags"]:
                fn_under_contract.append("%s :: %s lines %d-%d [T3 fragment]" % (f["file"], " :: ".join(f["path"]), f["line"], f["end_line"]))
        for f in r.get("kani_functions", []):
            fn_under_contract.append(f)
        for f in real[:3]:
            samples.append({"unit": r["unit"], "backend": r["backend"], "obligation": f["function"],
                            "mode": f.get("mode"), "discharged": f["success"], "solver_ms": f.get("ms")})
        for s in r.get("samples", []):
            samples.append(s)
        per_unit.append({"unit": r["unit"], "backend": r["backend"], "status": r["status"], "reason": r.get("reason", ""),
                         "obligations": len(real) if r["backend"] == "verus" else r.get("obligations", 0),
                         "solver_ms": r.get("smt_ms", 0), "wall_s": round(r.get("wall_s", 0), 2),
                         "assumption_scan": r.get("assumptions", {}),
                         "dropped_by_extraction": (r.get("extraction") or {}).get("dropped", []),
                         "substitutions": (r.get("extraction") or {}).get("substs", []),
                         "rules": sorted({x for f in (r.get("extraction") or {}).get("functions", []) for x in f["rules"]}),
                         "cmd": r.get("cmd", "")})

    # output
    for kf, fail in known:
        print("KNOWN-FINDING: property=%s %s (%s: %s)" % (prop, kf["what"], fail.get("function"), fail.get("kind")))
    rc = 0
    for r, fail, path in violations:
        tail = "" if fail.get("witness") else " no-failing-input-found"
        print("obligation failed: %s::%s::%s" % (r["unit"], fail.get("function"), fail.get("kind")))
        print("VIOLATION property=%s replay=%s%s" % (prop, path, tail))
        rc = 1
    if rc == 0 and undecided:
        for r in undecided:
            print("UNDECIDED unit=%s: %s" % (r["unit"], r["reason"]), file=sys.stderr)
            for dg in r.get("diagnostics", [])[:3]:
                print(dg, file=sys.stderr)
        rc = 2
    wall = time.time() - t0
    rules_used = sorted({x for u in per_unit for x in u["rules"]})
    for ru in rules_used:
        trusted.add("extraction rule %s: %s" % (ru, extract.RULE_TEXT[ru]))
    ev = {
        "property_id": prop,
        "tier": tier,
        "seed": seed,
        "level": "proof",
        "coverage": {
            "obligations": obligations,
            "discharged": discharged,
            "checker_cmd": "; ".join(sorted({u["cmd"] for u in per_unit if u["cmd"]}))[:4000],
            "trusted_base": sorted(trusted),
            "functions_under_contract": fn_under_contract,
            "units": per_unit,
            "assumption_scan_total": assumptions_total,
            "bounded": bounded + [{"harness": "native companion %s [%s]" % (ci["file"], ", ".join(ci["tests"])), "bound": ci["bound"],
                                   "status": ci["status"], "cases": ci["cases"], "wall_s": ci["wall_s"],
                                   "what": "real code driven natively against a reference written from the property statement; bounded stand-in and witness search, never counted as proved"}
                                  for ci in companion_infos],
            "samples": samples[:12] or [{"note": "no obligations"}],
            "not_covered": pcfg.get("not_covered", []),
            "obligation_unit": "one obligation = all verification conditions Verus generates for one function or lemma "
                               "(pre/postconditions at calls, loop invariants, overflow, index, termination), or one Kani harness "
                               "(all CBMC checks in it); bounded Kani harnesses are listed under 'bounded' and not counted",
            "known_findings_reported": [kf["id"] for kf, _ in known],
            "undecided_units": [r["unit"] for r in undecided],
        },
        "assumptions": sorted(trusted),
        "wall_s": round(wall, 2),
        "violations": len(violations),
    }
    os.makedirs(os.path.join(ROOT, "evidence"), exist_ok=True)
    with open(os.path.join(ROOT, "evidence", prop + ".json"), "w") as f:
        json.dump(ev, f, indent=1)
    print("%s: %d/%d obligations discharged, %d violation(s), %d undecided unit(s), %.1fs" %
          (prop, discharged, obligations, len(violations), len(undecided), wall))
    return rc


def main():
    ap = argparse.ArgumentParser()
    ap.add_argument("prop", nargs="?")
    ap.add_argument("--tier", default=os.environ.get("VERIF_TIER", "quick"))
    ap.add_argument("--repo", default="/repo")
    ap.add_argument("--replay")
    ap.add_argument("--setup", action="store_true")
    a = ap.parse_args()
    seed = int(os.environ.get("VERIF_SEED", "0") or 0)
    cfg = load_cfg()
    if a.setup:
        rc1 = kani_run.setup(a.repo)
        rc2 = native_run.setup(a.repo)
        sys.exit(0 if rc1 == 0 else 1)   # the native companion is optional (witness search only)
    if a.replay:
        with open(a.replay) as f:
            rp = json.load(f)
        rc = check_property(rp["property"], a.tier, a.repo, cfg, seed)
        sys.exit(rc)
    if a.prop not in cfg["properties"]:
        print("unknown or not-claimed property %r" % a.prop, file=sys.stderr)
        sys.exit(2)
    tier = a.tier if a.tier in ("quick", "thorough") else "quick"
    sys.exit(check_property(a.prop, tier, a.repo, cfg, seed))


if __name__ == "__main__":
    try:
        main()
    except SystemExit:
        raise
    except Exception:   # an internal error of the machinery is never an alarm
        import traceback
        traceback.print_exc()
        print("UNDECIDED: internal error of the check driver", file=sys.stderr)
        sys.exit(2)
