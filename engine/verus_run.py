"""Run single-file Verus on an assembled unit and classify the outcome.

Outcome kinds:
  ok          every non-vacuity function verified, every vacuity twin failed
  violated    at least one non-vacuity function failed with a semantic verdict
  undecided   compile error / unsupported construct / rlimit / tool crash / vacuity trip
"""
import json
import os
import re
import subprocess
import time

from rstok import tokenize, match_close

ASSUMPTION_PATTERNS = [
    ("external_body", r"external_body"),
    ("assume_specification", r"assume_specification"),
    ("external_type_specification", r"external_type_specification"),
    ("admit", r"\badmit\s*\("),
    ("assume", r"\bassume\s*\("),
    ("external", r"verifier::external\b"),
    ("axiom (broadcast proof fn with admit)", r"\baxiom_[a-z_0-9]*"),
]


def scan_assumptions(text):
    # strip comments before counting
    toks = tokenize(text)
    code = " ".join(t.text for t in toks)
    out = {}
    for name, pat in ASSUMPTION_PATTERNS:
        n = len(re.findall(pat, code))
        if n:
            out[name] = n
    return out


def fn_spans(text):
    """list of (qualified-ish name, first_line, last_line) for every fn with a body."""
    toks = tokenize(text)
    spans = []
    for i, t in enumerate(toks):
        if t.kind == "id" and t.text == "fn" and i + 1 < len(toks) and toks[i + 1].kind == "id":
            # find body brace or ';'
            j = i + 2
            body = None
            while j < len(toks):
                tx = toks[j].text
                if toks[j].kind == "punct":
                    if tx in ("(", "["):
                        j = match_close(toks, j)
                    elif tx == "{":
                        # a brace block inside requires/ensures (`p ==> { &&& a &&& b },`) is not the body:
                        # the body is the brace group that is not followed by a `,`
                        c = match_close(toks, j)
                        if c + 1 < len(toks) and toks[c + 1].text == ",":
                            j = c + 1
                            continue
                        body = j
                        break
                    elif tx == ";":
                        break
                j += 1
            if body is None:
                continue
            close = match_close(toks, body)
            l0 = text.count("\n", 0, t.start) + 1
            l1 = text.count("\n", 0, toks[close].start) + 1
            spans.append((toks[i + 1].text, l0, l1))
    return spans


def innermost_fn(spans, line):
    best = None
    for name, a, b in spans:
        if a <= line <= b and (best is None or a >= best[1]):
            best = (name, a, b)
    return best[0] if best else None


ERR_HEAD = re.compile(r"^(error|warning|note)(\[[A-Z0-9]+\])?: (.*)$")
LOC = re.compile(r"^\s*--> ([^:]+):(\d+):(\d+)")

SEMANTIC = (
    "postcondition not satisfied", "precondition not satisfied", "assertion failed",
    "invariant not satisfied", "possible arithmetic underflow/overflow",
    "possible division by zero", "decreases not satisfied", "loop invariant",
    "possible bit shift underflow/overflow", "index out of bounds",
    "recommendation not met", "could not prove termination", "unreachable",
    "failed to satisfy", "bit_vector", "assert_by", "possible"
)


def parse_stderr(err):
    """-> list of dicts {level, msg, line, col, text}"""
    out = []
    cur = None
    for ln in err.split("\n"):
        m = ERR_HEAD.match(ln)
        if m:
            cur = {"level": m.group(1), "msg": m.group(3), "line": None, "col": None, "text": ln}
            out.append(cur)
            continue
        if cur is not None:
            cur["text"] += "\n" + ln
            m = LOC.match(ln)
            if m and cur["line"] is None:
                cur["line"] = int(m.group(2))
                cur["col"] = int(m.group(3))
    return out


def run_verus(path, rlimit=None, timeout=900, extra=()):
    cmd = ["verus", os.path.basename(path), "--output-json", "--time", "--multiple-errors", "20"]
    if rlimit:
        cmd += ["--rlimit", str(rlimit)]
    cmd += list(extra)
    t0 = time.time()
    try:
        p = subprocess.run(cmd, cwd=os.path.dirname(path), capture_output=True, text=True, timeout=timeout)
        rc, out, err = p.returncode, p.stdout, p.stderr
    except subprocess.TimeoutExpired as e:
        rc, out, err = -9, (e.stdout or b"").decode() if isinstance(e.stdout, bytes) else (e.stdout or ""), "TIMEOUT"
    wall = time.time() - t0
    return {"cmd": " ".join(cmd), "rc": rc, "stdout": out, "stderr": err, "wall_s": wall}


def classify(text, res):
    """text: assembled file; res: run_verus result.  Returns dict."""
    spans = fn_spans(text)
    r = {"status": "undecided", "reason": "", "functions": [], "failed": [], "vacuity_ok": True,
         "verified": 0, "errors": 0, "smt_ms": 0, "cmd": res["cmd"], "wall_s": res["wall_s"]}
    if res["stderr"] == "TIMEOUT":
        r["reason"] = "verus timed out"
        return r
    try:
        js = json.loads(res["stdout"])
    except Exception:
        r["reason"] = "no JSON from verus: " + res["stderr"][-2000:]
        return r
    vr = js.get("verification-results", {})
    diags = parse_stderr(res["stderr"])
    errs = [d for d in diags if d["level"] == "error" and not d["msg"].startswith("aborting due to")]
    funcs = []
    for m in js.get("times-ms", {}).get("smt", {}).get("smt-run-module-times", []):
        for f in m.get("function-breakdown", []):
            funcs.append({"function": f["function"], "mode": f.get("mode:", f.get("mode", "")),
                          "ms": f.get("time", 0), "rlimit": f.get("rlimit", 0), "success": f["success"]})
    r["functions"] = funcs
    r["smt_ms"] = js.get("times-ms", {}).get("smt", {}).get("smt-run", 0)
    r["verified"] = vr.get("verified", 0)
    r["errors"] = vr.get("errors", 0)
    if vr.get("encountered-vir-error") or (not funcs and not vr.get("success")):
        r["reason"] = "assembled unit does not compile (lost anchor / unsupported construct / changed signature): " + \
            "; ".join(e["msg"] for e in errs[:5])
        r["diagnostics"] = [e["text"] for e in errs[:10]]
        return r
    # a solver resource limit decides nothing about the function it hit; it makes the unit undecided unless some
    # OTHER function has a definite semantic verdict (which is reported)
    rl_errs = [e for e in errs if "rlimit" in e["msg"] or "Resource limit" in e["msg"] or "timed out" in e["msg"]]
    failed = []
    for e in errs:
        if e in rl_errs:
            continue
        # the primary span of a failed postcondition may lie in a trait declaration (no body): fall back to the other
        # source lines quoted in the diagnostic (the gutter numbers), e.g. "at the end of the function body"
        cands = ([e["line"]] if e["line"] else []) + [int(x) for x in re.findall(r"^\s*(\d+) \|", e["text"], re.M)]
        fn = None
        for ln_ in cands:
            fn = innermost_fn(spans, ln_)
            if fn:
                break
        if fn and fn.startswith("vacuity__"):
            continue
        failed.append({"function": fn, "kind": e["msg"], "line": e["line"], "col": e["col"], "text": e["text"]})
    if rl_errs and not [f for f in failed if any(s_ in f["kind"] for s_ in SEMANTIC)
                        and not str(f.get("function") or "").startswith("finding__")]:
        r["reason"] = "solver resource limit: " + rl_errs[0]["msg"]
        r["diagnostics"] = [rl_errs[0]["text"]]
        return r
    # vacuity twins must fail
    vac_pass = [f["function"] for f in funcs if f["function"].split("::")[-1].startswith("vacuity__") and f["success"]]
    real_fail = [f["function"] for f in funcs if not f["function"].split("::")[-1].startswith(("vacuity__", "finding__")) and not f["success"]]
    r["failed"] = failed
    if real_fail and not failed:
        # failure reported by the breakdown but no diagnostic parsed: still a failure
        for fn in real_fail:
            failed.append({"function": fn, "kind": "verification failed (no diagnostic parsed)", "line": None, "col": None,
                           "text": res["stderr"][-1500:]})
    only_findings = bool(failed) and all(str(f.get("function") or "").startswith("finding__") for f in failed)
    if failed and not only_findings:
        nonsem = [f for f in failed if not any(s in f["kind"] for s in SEMANTIC)]
        if nonsem and len(nonsem) == len(failed):
            r["status"] = "undecided"
            r["reason"] = "non-semantic error: " + nonsem[0]["kind"]
            r["diagnostics"] = [f["text"] for f in nonsem[:5]]
            return r
        r["status"] = "violated"
        r["reason"] = "%d obligation(s) failed" % len(failed)
        return r
    if vac_pass:
        r["vacuity_ok"] = False
        r["reason"] = "vacuity guard tripped: precondition of %s is contradictory" % ", ".join(vac_pass)
        return r
    nvac = len([f for f in funcs if f["function"].split("::")[-1].startswith("vacuity__")])
    if len(funcs) - nvac <= 0:
        r["reason"] = "no obligations generated"
        return r
    r["status"] = "ok" if not failed else "findings"
    return r
