#!/usr/bin/env python3
"""Sensitivity audit: apply hand-written semantic mutations to a scratch copy of /repo and run the checks
against it.  Usage: mutest.py [--only NAME_SUBSTR] [--props C04,C09]  (Kani-backed properties are slow).
Writes /verif/work/mutest_results.json.  A mutant is 'caught' if the check exits 1 with a VIOLATION line,
'undecided' if it exits 2, 'missed' if it exits 0."""
import json
import os
import re
import shutil
import subprocess
import sys

ROOT = os.path.dirname(os.path.dirname(os.path.abspath(__file__)))
SCRATCH = "/tmp/bita-mutest"

# (name, file, old, new, [properties expected to catch it])
MUTANTS = [
    ("adj_le", "bitar/src/archive_reader/http_reader.rs", "(p[0].offset + p[0].size as u64) == p[1].offset", "(p[0].offset + p[0].size as u64) <= p[1].offset", ["C07"]),
    ("adj_plus0", "bitar/src/archive_reader/http_reader.rs", ".count()\n            + 1", ".count()\n            + 0", ["C07"]),
    ("req_total_size", "bitar/src/archive_reader/http_reader.rs", "let total_size = last_adjacent.end() - next.offset;", "let total_size = last_adjacent.end() - next.offset + 1;", ["C07"]),
    ("req_last_adjacent", "bitar/src/archive_reader/http_reader.rs", "let last_adjacent = &chunks[self.num_adjacent_reads - 1];", "let last_adjacent = &chunks[0];", ["C07"]),
    ("range_end", "bitar/src/archive_reader/http_range_request.rs", "let end_offset = self.offset + self.size - 1;", "let end_offset = self.offset + self.size;", ["C07"]),
    ("range_progress", "bitar/src/archive_reader/http_range_request.rs", "self.size -= item.len() as u64;", "self.size -= 0 * item.len() as u64;", ["C07"]),
    ("scan_max_gt", "bitar/src/chunker/rolling_hash.rs", "found_boundary || self.offset >= self.max_chunk_size", "found_boundary || self.offset > self.max_chunk_size", ["C09"]),
    ("skip_limit", "bitar/src/chunker/rolling_hash.rs", "std::cmp::min(self.hash_input_limit - 1, buf.len())", "std::cmp::min(self.hash_input_limit, buf.len())", ["C09"]),
    ("skip_min", "bitar/src/chunker/rolling_hash.rs", "std::cmp::min(self.min_chunk_size - 1, buf.len())", "std::cmp::min(self.min_chunk_size, buf.len())", ["C09"]),
    ("next_no_reset", "bitar/src/chunker/rolling_hash.rs", "            self.offset = 0;\n", "", ["C09"]),
    ("limit_calc", "bitar/src/chunker/rolling_hash.rs", "config.min_chunk_size - config.window_size\n", "config.min_chunk_size - config.window_size + 1\n", ["C09"]),
    ("rollsum_offset", "bitar/src/rolling_hash/rollsum.rs", "if self.offset >= self.window.len() {", "if self.offset > self.window.len() {", ["C09", "C15"]),
    ("rollsum_drop", "bitar/src/rolling_hash/rollsum.rs", "self.s1 = self.s1.wrapping_sub(drop);", "self.s1 = self.s1.wrapping_sub(drop >> 1);", ["C09", "C10"]),
    ("buz_repeat", "bitar/src/rolling_hash/buzhash.rs", "if self.repeated_input <= self.window {", "if self.repeated_input < self.window {", ["C09", "C10"]),
    ("buz_rot", "bitar/src/rolling_hash/buzhash.rs", "out_val.rotate_left(self.window as u32)", "out_val.rotate_left(self.window as u32 - 1)", ["C09", "C10"]),
    ("fixed_ge", "bitar/src/chunker/fixed_size.rs", "if buf.len() >= self.chunk_size {", "if buf.len() > self.chunk_size {", ["C09"]),
    ("stream_offset", "bitar/src/chunker/streaming_chunker.rs", "me.chunk_start += chunk.len() as u64;", "me.chunk_start += chunk.len() as u64 + 0 * offset + (offset == 0) as u64 * 0;", []),
    ("stream_offset2", "bitar/src/chunker/streaming_chunker.rs", "let offset = me.chunk_start;\n                    me.chunk_start += chunk.len() as u64;", "me.chunk_start += chunk.len() as u64;\n                    let offset = me.chunk_start;", ["C09"]),
    ("verify_skip", "bitar/src/chunk.rs", "if hash_sum != self.expected_hash {", "if hash_sum != self.expected_hash && self.expected_hash.len() > 4 {", ["C04"]),
    ("verify_trunc", "bitar/src/chunk.rs", "hash_sum.truncate(self.expected_hash.len());", "hash_sum.truncate(self.expected_hash.len().min(8));", ["C04"]),
    ("hashsum_eq", "bitar/src/hashsum.rs", "impl PartialEq<HashSum> for HashSum {\n    fn eq(&self, other: &Self) -> bool {\n        let min_len = cmp::min(self.len(), other.len());", "impl PartialEq<HashSum> for HashSum {\n    fn eq(&self, other: &Self) -> bool {\n        let min_len = cmp::min(cmp::min(self.len(), other.len()), 32);", ["C04"]),
    ("magic_or", "bitar/src/archive.rs", "            && &pre_header[0..header::ARCHIVE_MAGIC.len()] != b\"\\0BITA1\"", "            && &pre_header[1..header::ARCHIVE_MAGIC.len()] != &b\"\\0BITA1\"[1..]", ["C04", "C17"]),
    ("hdr_check_len", "bitar/src/archive.rs", "let header_checksum = HashSum::from(&header[offs..(offs + 64)]);", "let header_checksum = HashSum::from(&header[offs..(offs + 32)]);", ["C04"]),
    ("hdr_pin", "src/clone_cmd.rs", "        if expected_checksum.len() != archive.header_checksum().len()\n            || *expected_checksum != *archive.header_checksum()\n", "        if *expected_checksum != *archive.header_checksum()\n", ["C04"]),
    ("desc_offset", "bitar/src/archive.rs", "archive_offset: chunk_data_offset + dict.archive_offset,", "archive_offset: header.len() as u64 + dict.archive_offset,", ["C17"]),
    ("reader_rule", "bitar/src/archive.rs", "compression: if source_size == chunk.len() {", "compression: if source_size <= chunk.len() {", ["C17"]),
    ("cfg_validate_bits", "bitar/src/archive.rs", "!(1..=30).contains(&p.chunk_filter_bits)", "!(0..=30).contains(&p.chunk_filter_bits)", ["C15"]),
    ("cfg_validate_win", "bitar/src/archive.rs", "                || p.rolling_hash_window_size == 0\n", "", ["C15"]),
    ("rebuild_validate", "bitar/src/archive.rs", ".any(|index| *index >= archive_chunks.len())", ".any(|index| *index > archive_chunks.len())", ["C15"]),
    ("hdr_build_off", "bitar/src/header.rs", "None => header.len() as u64 + 8 + 64,", "None => header.len() as u64 + 8 + 32,", ["C11"]),
    ("hdr_build_order", "bitar/src/header.rs", "    hasher.update(&header);\n    header.extend(hasher.finalize());", "    header.extend(hasher.finalize());\n    hasher.update(&header);", ["C11"]),
    ("lib_store_le", "bitar/src/api/compress.rs", "if compressed_bytes.len() < verified.chunk().len() {", "if compressed_bytes.len() <= verified.chunk().len() {", ["C11"]),
    ("cli_store_gt", "src/compress_cmd.rs", "let use_uncompressed = compressed.len() >= chunk_len;", "let use_uncompressed = compressed.len() > chunk_len;", ["C11"]),
    ("lib_offset", "bitar/src/api/compress.rs", "archive_offset += use_data.len() as u64;", "archive_offset += verified.len() as u64;", ["C11"]),
    ("cli_dedup", "src/compress_cmd.rs", "                    unique_chunk_index += 1;\n                    (true, chunk_index)", "                    unique_chunk_index += 1;\n                    (true, unique_chunk_index)", ["C11"]),
    ("lib_params", "bitar/src/api/compress.rs", "            min_chunk_size: hash_config.min_chunk_size as u32,\n            max_chunk_size: hash_config.max_chunk_size as u32,\n            rolling_hash_window_size: hash_config.window_size as u32,\n            chunk_hash_length: options.chunk_hash_length as u32,\n            chunking_algorithm: chunk_dictionary::chunker_parameters::ChunkingAlgorithm::Rollsum", "            min_chunk_size: hash_config.max_chunk_size as u32,\n            max_chunk_size: hash_config.max_chunk_size as u32,\n            rolling_hash_window_size: hash_config.window_size as u32,\n            chunk_hash_length: options.chunk_hash_length as u32,\n            chunking_algorithm: chunk_dictionary::chunker_parameters::ChunkingAlgorithm::Rollsum", ["C11"]),
    ("mask_shift", "bitar/src/chunker/config.rs", "!0 >> (32 - self.0)", "!0 >> (31 - self.0)", ["C09"]),
    ("stream_tail_drop", "bitar/src/chunker/streaming_chunker.rs", "let last_chunk = if me.buf.is_empty() {", "let last_chunk = if me.buf.len() < 2 {", ["C09"]),
    ("stream_eof_any", "bitar/src/chunker/streaming_chunker.rs", "                0 => {\n                    // End of file/reader.", "                0 | 1 => {\n                    // End of file/reader.", ["C09"]),
    ("dict_total_size", "bitar/src/api/compress.rs", "source_total_size: source_length as u64,", "source_total_size: archive_offset,", ["C11"]),
    ("dict_order_cli", "src/compress_cmd.rs", "rebuild_order: chunk_order.iter().map(|&index| index as u32).collect(),", "rebuild_order: chunk_order.iter().map(|&index| index as u32 + 0 * index as u32 + (index == 1) as u32).collect(),", ["C11"]),
    ("remaining_hdr", "bitar/src/archive.rs", "dictionary_size.checked_add(8 + 64)", "dictionary_size.checked_add(8 + 32)", ["C15", "C04"]),
    ("prealloc", "bitar/src/archive_reader/io_reader.rs", "BytesMut::with_capacity(std::cmp::min(size, MAX_PREALLOCATION))", "BytesMut::with_capacity(std::cmp::max(size, MAX_PREALLOCATION))", ["C15"]),
    # --- whole-body units (readers, streaming chunker, CLI feed loop, chunk_stream) ---
    ("io_seek_plus1", "bitar/src/archive_reader/io_reader.rs", "io::SeekFrom::Start(read_at.offset)", "io::SeekFrom::Start(read_at.offset + 1)", ["C08"]),
    ("io_offset_assign", "bitar/src/archive_reader/io_reader.rs", "Ok(()) => self.buf_offset += buf.filled().len(),", "Ok(()) => self.buf_offset = buf.filled().len(),", ["C08"]),
    ("io_no_truncate", "bitar/src/archive_reader/io_reader.rs", "                chunk.truncate(read_at.size);\n", "", ["C08"]),
    ("io_resize_plus", "bitar/src/archive_reader/io_reader.rs", "self.buf.resize(read_at.size, 0);", "self.buf.resize(read_at.size + 1, 0);", ["C08"]),
    ("readat_no_truncate", "bitar/src/archive_reader/io_reader.rs", "        buf.truncate(size);\n", "", ["C08"]),
    ("http_no_clear", "bitar/src/archive_reader/http_reader.rs", "                self.chunk_buf.clear();\n", "", ["C08"]),
    ("http_deliver_gt", "bitar/src/archive_reader/http_reader.rs", "if self.chunk_buf.len() >= next.size {", "if self.chunk_buf.len() > next.size {", ["C08", "C15"]),
    ("http_no_decrement", "bitar/src/archive_reader/http_reader.rs", "                self.num_adjacent_reads -= 1;\n", "", ["C07", "C08"]),
    ("retry_no_reset", "bitar/src/archive_reader/http_range_request.rs", "                        self.state = RequestState::Delay(Box::pin(sleep(self.retry_delay)));\n", "", ["C08"]),
    ("retry_off_by_one", "bitar/src/archive_reader/http_range_request.rs", "                    if self.retry_count == 0 {\n                        return Poll::Ready(Some(Err(err)));", "                    if self.retry_count <= 1 {\n                        return Poll::Ready(Some(Err(err)));", ["C08"]),
    ("no_truncate_surplus", "bitar/src/archive_reader/http_range_request.rs", "                        item.truncate(usize::try_from(self.size).unwrap_or(usize::MAX));\n", "", ["C15"]),
    ("until_err_no_end", "bitar/src/archive.rs", "                self.end = true;\n", "", ["C04"]),
    ("feed_skip_err", "src/clone_cmd.rs", "        let verified = result?;\n        let wc = output.feed(&verified).await?;", "        let verified = match result { Ok(v) => v, Err(_) => continue };\n        let wc = output.feed(&verified).await?;", ["C04"]),
    ("fetch_negated", "bitar/src/archive.rs", ".filter(|cd| chunks.contains(&cd.checksum))", ".filter(|cd| !chunks.contains(&cd.checksum))", ["C07"]),
    ("fetch_source_size", "bitar/src/archive.rs", ".map(|cd| ChunkOffset::new(cd.archive_offset, cd.archive_size))", ".map(|cd| ChunkOffset::new(cd.archive_offset, cd.source_size as usize))", ["C07", "C17"]),
    ("pair_wrong_desc", "bitar/src/archive.rs", "let descriptor = descriptors[index];", "let descriptor = descriptors[0];", ["C17", "C04"]),
    ("hdr_slice_9", "bitar/src/archive.rs", "u64::from_le_bytes(header[offs..(offs + 8)].try_into().unwrap())", "u64::from_le_bytes(header[offs..(offs + 9)].try_into().unwrap())", ["C15"]),
    ("benign_stream_no_reserve", "bitar/src/chunker/streaming_chunker.rs", "                me.buf.reserve(REFILL_SIZE);\n", "                ();\n", ["C09", "C15"]),
    ("io_seek_arg", "bitar/src/archive_reader/io_reader.rs", "start_seek(io::SeekFrom::Start(read_at.offset))", "start_seek(io::SeekFrom::Start(read_at.offset + self.buf_offset as u64))", ["C08"]),
    ("io_progress", "bitar/src/archive_reader/io_reader.rs", "Ok(()) => self.buf_offset += buf.filled().len(),", "Ok(()) => self.buf_offset = buf.filled().len(),", ["C08"]),
    ("retry_budget", "bitar/src/archive_reader/http_range_request.rs", "                    if self.retry_count == 0 {\n                        return Poll::Ready(Some(Err(err)));", "                    if self.retry_count <= 1 {\n                        return Poll::Ready(Some(Err(err)));", ["C08"]),
    ("desc_end_check", "bitar/src/archive.rs", "Some(offset) if offset.checked_add(dict.archive_size as u64).is_some() => offset,", "Some(offset) => offset,", ["C15"]),
    ("verify_output", "src/clone_cmd.rs", "        if sum == *expected_checksum {", "        if sum == *expected_checksum || expected_checksum.len() < 64 {", ["C04"]),
    ("compression_level", "bitar/src/archive.rs", "        Ok(CompressionType::Brotli) => Ok(Some(Compression {\n            algorithm: CompressionAlgorithm::Brotli,\n            level: c.compression_level,", "        Ok(CompressionType::Brotli) => Ok(Some(Compression {\n            algorithm: CompressionAlgorithm::Brotli,\n            level: c.compression_level.min(11),", ["C11", "C17"]),
    # ---- session 4: clone index / clone output / executor / scan / clone flow (units u11, u13, u14)
    ("ci_sorted_insert_at0", "bitar/src/chunk_index.rs", "self.offsets.insert(idx, offset);", "self.offsets.insert(0, offset);", ["C13"]),
    ("ci_add_no_truncate", "bitar/src/chunk_index.rs", "        hash.truncate(self.hash_length);\n", "", ["C02", "C13"]),
    ("ci_trunc_ge", "bitar/src/chunk_index.rs", "if hash.len() > self.truncate_len {", "if hash.len() > self.truncate_len + 1 {", ["C02"]),
    ("ci_strip_skip_first", "bitar/src/chunk_index.rs", ".position(|offset| *offset == *remove_offset)", ".position(|offset| *offset > *remove_offset)", ["C13"]),
    ("ci_strip_keep_empty", "bitar/src/chunk_index.rs", "if cd.offsets.is_empty() {", "if cd.offsets.len() > 1 {", ["C13"]),
    ("co_feed_no_write", "bitar/src/clone_output.rs", "Ok(self.write_offset(location.offsets(), verified).await?)", "Ok(self.write_offset(&location.offsets()[1..], verified).await?)", ["C13", "C02"]),
    ("co_write_seek_plus", "bitar/src/clone_output.rs", "self.inner.seek(SeekFrom::Start(offset)).await?;\n            self.inner.write_all", "self.inner.seek(SeekFrom::Start(offset + 1)).await?;\n            self.inner.write_all", ["C13", "C02"]),
    ("ex_copy_from_dest", "bitar/src/clone_output.rs", "                        temp_buf.resize(size, 0);\n                        self.inner.seek(SeekFrom::Start(source)).await?;", "                        temp_buf.resize(size, 0);\n                        self.inner.seek(SeekFrom::Start(dest[0])).await?;", ["C03", "C13"]),
    ("ex_store_resize", "bitar/src/clone_output.rs", "                        buf.resize(size, 0);", "                        buf.resize(size / 2, 0);", ["C03"]),
    ("ex_no_index_remove", "bitar/src/clone_output.rs", "                    self.clone_index.remove(hash);\n", "", ["C06", "C13"]),
    ("ex_mem_not_removed", "bitar/src/clone_output.rs", "if let Some(verified) = temp_store.remove(hash) {", "if let Some(verified) = temp_store.get(hash).cloned() {", ["C03"]),
    ("scan_size_wrong", "src/clone_cmd.rs", "index.add_chunk(hash, chunk.len(), &[chunk_offset]);", "index.add_chunk(hash, chunk.len(), &[chunk_offset + 1]);", ["C06", "C03"]),
    ("filesize_no_rewind", "src/clone_cmd.rs", "    let size = file.seek(SeekFrom::End(0)).await?;\n    file.seek(SeekFrom::Start(0)).await?;", "    let size = file.seek(SeekFrom::End(0)).await?;", ["C06"]),
    ("gate_no_return", "src/clone_cmd.rs", "            return Err(anyhow!(\"Header checksum mismatch\"));", "            warn!(\"Header checksum mismatch\");", ["C14"]),
    ("gate_only_for_existing", "src/clone_cmd.rs", "    if let Some(ref expected_checksum) = opts.header_checksum {\n        if expected_checksum.len()", "    if let Some(expected_checksum) = opts.header_checksum.as_ref().filter(|_| opts.seed_output || opts.force_create) {\n        if expected_checksum.len()", ["C14"]),
    ("open_create_always", "src/clone_cmd.rs", "        .create(opts.force_create || opts.seed_output)\n", "        .create(true)\n", ["C14"]),
    ("flow_setlen_blockdev", "src/clone_cmd.rs", "    if !output_is_block_dev {\n        // Resize", "    if output_is_block_dev {\n        // Resize", ["C02", "C03"]),
    ("srcidx_offset0", "bitar/src/archive.rs", "ci.add_chunk(cd.checksum.clone(), cd.source_size as usize, &[offset]);", "ci.add_chunk(cd.checksum.clone(), cd.source_size as usize, &[offset / 2 * 2]);", ["C13", "C02"]),
]


def run(cmd, **kw):
    return subprocess.run(cmd, capture_output=True, text=True, **kw)


def main():
    only = None
    props_filter = None
    args = sys.argv[1:]
    while args:
        a = args.pop(0)
        if a == "--only":
            only = args.pop(0)
        elif a == "--props":
            props_filter = set(args.pop(0).split(","))
    results = []
    for name, rel, old, new, props in MUTANTS:
        if only and not any(o in name for o in only.split(",")):
            continue
        if props_filter and not (set(props) & props_filter):
            continue
        run(["rsync", "-a", "--delete", "--exclude", "target", "--exclude", ".git", "/repo/", SCRATCH + "/"])
        p = os.path.join(SCRATCH, rel)
        src = open(p).read()
        if old not in src:
            results.append({"mutant": name, "status": "STALE (pattern not found)"})
            print("%-20s STALE" % name)
            continue
        open(p, "w").write(src.replace(old, new, 1))
        row = {"mutant": name, "file": rel, "checks": {}}
        for prop in props:
            if props_filter and prop not in props_filter:
                continue
            r = run([os.path.join(ROOT, "check"), prop, "--repo", SCRATCH])
            status = {0: "MISSED", 1: "caught", 2: "undecided"}.get(r.returncode, "rc=%d" % r.returncode)
            if name.startswith("benign_"):      # behaviour-preserving: the good outcome is "no alarm"
                status = {0: "no-alarm", 1: "FALSE-ALARM", 2: "undecided"}.get(r.returncode, status)
            ob = [ln for ln in r.stdout.split("\n") if ln.startswith("obligation failed")]
            row["checks"][prop] = {"status": status, "obligations": ob[:3], "stderr": r.stderr[-300:] if r.returncode == 2 else ""}
            print("%-20s %s %-9s %s" % (name, prop, status, (ob[0] if ob else r.stderr.strip()[-150:])))
        results.append(row)
    os.makedirs(os.path.join(ROOT, "work"), exist_ok=True)
    with open(os.path.join(ROOT, "work", "mutest_results.json"), "w") as f:
        json.dump(results, f, indent=1)
    shutil.rmtree(SCRATCH, ignore_errors=True)


if __name__ == "__main__":
    main()
