#!/bin/bash
# benignsweep.sh <dir-with-N/patch.diff>...  -- apply each behaviour-preserving patch to /repo, run all eight checks, undo.
# Writes <parent>/RESULT.tsv: <n> <property> <rc> [first alarm line].  rc 0 = held, 2 = undecided (never an alarm), 1 = FALSE ALARM.
for D in "$@"; do
  D=$(readlink -f ${D%/}); OUT=$(dirname $D)/RESULT.tsv
  git -C /repo apply $D/patch.diff || { printf "%s\tNOAPPLY\n" $(basename $D) >> $OUT; continue; }
  for P in C04 C07 C08 C09 C10 C11 C15 C17; do
    cd /verif; ./check $P > /tmp/benign_check.txt 2>&1; RC=$?
    printf "%s\t%s\t%s\t%s\n" $(basename $D) $P $RC "$(grep -E 'VIOLATION|UNDECIDED' /tmp/benign_check.txt | head -2 | tr '\n' ' ' | cut -c1-300)" >> $OUT
  done
  git -C /repo checkout -- .
done
echo DONE >> $OUT
