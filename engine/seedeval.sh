#!/bin/bash
# seedeval.sh <seed-dir containing patch.diff [+ demo.rs]> <property> [confirm]
#  - with "confirm": confirm the seeded change in the scratch worktree /tmp/bita-fix
#    (patch applies, full suite passes, demo fails with / passes without the patch)
#  - then: apply the patch to /repo, run ./check <property>, undo it straight afterwards.
SEED=$1; PROP=$2; CONFIRM=$3
WT=/tmp/bita-fix
TGT=/tmp/bita-fix-target
if [ "$CONFIRM" = "confirm" ]; then
  cd $WT && git checkout -q -- . && git clean -fdq
  git apply "$SEED/patch.diff" || { echo "CONFIRM: patch does not apply"; exit 3; }
  R=$(CARGO_TARGET_DIR=$TGT cargo test --offline --workspace 2>&1 | grep -E "^test result" | awk '{p+=$4; f+=$6} END {print p, f}')
  echo "CONFIRM: suite with patch: passed/failed = $R"
  if [ -f "$SEED/demo.rs" ]; then
    cp "$SEED/demo.rs" bitar/tests/demo.rs
    CARGO_TARGET_DIR=$TGT timeout 600 cargo test --offline -p bitar --features compress --test demo > /tmp/seed_demo_with.txt 2>&1; echo "CONFIRM: demo with patch rc=$? ($(grep -E '^test result' /tmp/seed_demo_with.txt | head -1))"
    git checkout -q -- . ; cp "$SEED/demo.rs" bitar/tests/demo.rs
    CARGO_TARGET_DIR=$TGT timeout 600 cargo test --offline -p bitar --features compress --test demo > /tmp/seed_demo_without.txt 2>&1; echo "CONFIRM: demo without patch rc=$? ($(grep -E '^test result' /tmp/seed_demo_without.txt | head -1))"
    rm -f bitar/tests/demo.rs
  fi
  git checkout -q -- . && git clean -fdq
fi
cd /verif
git -C /repo apply "$SEED/patch.diff" || { echo "patch does not apply to /repo"; exit 3; }
for P in $(echo $PROP | tr ',' ' '); do
  ./check $P > /tmp/seed_check_$P.txt 2>&1; RC=$?
  echo "CHECK $P rc=$RC: $(grep -E 'obligation failed|VIOLATION|UNDECIDED' /tmp/seed_check_$P.txt | head -3 | tr '\n' ' ')"
done
git -C /repo checkout -- .
git -C /repo status --short | head -3
