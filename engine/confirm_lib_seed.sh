#!/bin/bash
# confirm_lib_seed.sh <seed-dir with patch.diff + demo.rs> <scratch worktree> <target dir>
# patch applies; full suite passes with it; demo.rs (dropped at bitar/tests/demo.rs) fails with the patch and passes without it.
S=$1; WT=$2; TGT=$3
cd "$WT" && git checkout -q -- . && git clean -fdq
git apply "$S/patch.diff" || { echo "CONFIRM: patch does not apply"; exit 3; }
R=$(CARGO_TARGET_DIR=$TGT cargo test --offline --workspace 2>&1 | grep -E "^test result" | awk '{p+=$4; f+=$6} END {print p, f}')
echo "CONFIRM: suite with patch: passed/failed = $R"
cp "$S/demo.rs" bitar/tests/demo.rs
CARGO_TARGET_DIR=$TGT timeout 600 cargo test --offline -p bitar --features compress --test demo > /tmp/confirm_demo_with.txt 2>&1
echo "CONFIRM: demo with patch rc=$? ($(grep -E '^test result' /tmp/confirm_demo_with.txt | head -1))"
git checkout -q -- .
CARGO_TARGET_DIR=$TGT timeout 600 cargo test --offline -p bitar --features compress --test demo > /tmp/confirm_demo_without.txt 2>&1
echo "CONFIRM: demo without patch rc=$? ($(grep -E '^test result' /tmp/confirm_demo_without.txt | head -1))"
rm -f bitar/tests/demo.rs; git checkout -q -- . && git clean -fdq
