"""Bounded native companions (see companions/*.rs): real code driven natively against a reference written
from the property statement.  Never used to claim that a property holds; used to find a concrete failing
input (witness) when an obligation fails or a unit cannot be assembled, and as extra bounded exploration
in the thorough tier."""
import fcntl
import json
import os
import re
import subprocess
import time

HERE = os.path.dirname(os.path.abspath(__file__))
ROOT = os.path.dirname(HERE)
WORK = os.path.join(ROOT, "work", "native")
SRC = os.path.join(WORK, "src")
TARGET = os.path.join(WORK, "target")


def _env(seed):
    e = dict(os.environ)
    e["CARGO_NET_OFFLINE"] = "true"
    e["CARGO_TARGET_DIR"] = TARGET
    e["VERIF_SEED"] = str(seed)
    return e


def _gen_table_inc(repo_src):
    p = os.path.join(repo_src, "bitar", "src", "rolling_hash", "buzhash.rs")
    s = open(p).read()
    m = re.search(r"static BUZHASH_TABLE: &\[u32\] = &\[(.*?)\];", s, re.S)
    ms = re.search(r"const BUZHASH_SEED: u32 = ([0-9a-fA-Fx_]+);", s)
    if not m or not ms:
        return None
    vals = [v.strip() for v in m.group(1).replace("\n", " ").split(",") if v.strip()]
    return "#[allow(clippy::unreadable_literal)]\nconst BUZHASH_TABLE: [u32; %d] = [%s];\nconst BUZHASH_SEED: u32 = %s;\n" % (
        len(vals), ", ".join(vals), ms.group(1))


def prepare(repo, companion_file, package="bitar"):
    os.makedirs(SRC, exist_ok=True)
    subprocess.run(["rsync", "-a", "--delete", "--checksum", "--exclude", "/target", "--exclude", ".git",
                    repo.rstrip("/") + "/", SRC + "/"], check=True)
    tests = os.path.join(SRC, "bitar", "tests") if package == "bitar" else os.path.join(SRC, "tests")
    os.makedirs(tests, exist_ok=True)
    with open(os.path.join(ROOT, companion_file)) as f:
        text = f.read()
    name = "verif_" + os.path.splitext(os.path.basename(companion_file))[0]
    with open(os.path.join(tests, name + ".rs"), "w") as f:
        f.write(text)
    inc = _gen_table_inc(SRC)
    if inc is None:
        return False
    with open(os.path.join(tests, "verif_buzhash_table.inc"), "w") as f:
        f.write(inc)
    return True


def run_companion(repo, companion_file, tests, seed=1, cases=None, timeout=420, stride=None, package="bitar", deep=False):
    """-> dict(status: ok|witness|error, witnesses: [...], cases: int, wall_s, cmd, out_tail)"""
    os.makedirs(WORK, exist_ok=True)
    t0 = time.time()
    res = {"status": "error", "witnesses": [], "cases": 0, "wall_s": 0.0, "cmd": "", "out_tail": ""}
    with open(os.path.join(WORK, "lock"), "w") as lk:
        fcntl.flock(lk, fcntl.LOCK_EX)
        try:
            if not prepare(repo, companion_file, package):
                res["out_tail"] = "could not extract BUZHASH_TABLE from the source"
                return res
        except Exception as e:   # noqa
            res["out_tail"] = "prepare failed: %s" % e
            return res
        env = _env(seed)
        if cases:
            env["VERIF_COMPANION_CASES"] = str(cases)
        if stride:
            env["VERIF_COMPANION_STRIDE"] = str(stride)
        if deep:
            env["VERIF_COMPANION_DEEP"] = "1"      # thorough tier: larger grids (see each companion)
        name = "verif_" + os.path.splitext(os.path.basename(companion_file))[0]
        if package == "bitar":
            cmd = ["cargo", "test", "--offline", "-p", "bitar", "--features", "compress", "--test", name]
        else:
            cmd = ["cargo", "test", "--offline", "-p", package, "--test", name]
        cmd += ["--"] + list(tests) + ["--nocapture", "--test-threads", "4"]
        res["cmd"] = "CARGO_TARGET_DIR=work/native/target " + " ".join(cmd)
        # own process group, so that a timeout also kills the test binary cargo started (not only cargo)
        pp = subprocess.Popen(cmd, cwd=SRC, env=env, stdout=subprocess.PIPE, stderr=subprocess.PIPE, text=True,
                              start_new_session=True)
        try:
            so, se = pp.communicate(timeout=timeout)
            out = so + "\n" + se
            p = pp
        except subprocess.TimeoutExpired:
            try:
                os.killpg(pp.pid, 9)
            except Exception:      # noqa
                pass
            try:
                pp.communicate(timeout=10)
            except Exception:      # noqa
                pass
            res["out_tail"] = "companion timed out"
            res["wall_s"] = time.time() - t0
            return res
        res["out_tail"] = out[-3000:]
        for ln in out.split("\n"):
            m = re.match(r"WITNESS (\{.*\})\s*$", ln.strip())
            if m:
                res["witnesses"].append(m.group(1))
            m = re.match(r"COMPANION-OK cases=(\d+)", ln.strip())
            if m:
                res["cases"] += int(m.group(1))
        if not res["witnesses"] and re.search(r"signal: 6|SIGABRT|memory allocation of \d+ bytes failed|signal: 11|SIGSEGV", out):
            # the test process itself died: the real code aborted (never acceptable, C15) -- report the last stage marker
            stages = [ln.strip() for ln in out.split("\n") if ln.strip().startswith("STAGE ")]
            m = re.search(r"memory allocation of \d+ bytes failed", out)
            res["witnesses"].append(json.dumps({"kind": "C15", "what": "the process aborted while the real code ran (abort / allocation failure)",
                                                "detail": (m.group(0) + "; " if m else "") + (stages[-1] if stages else "stage unknown")}))
        if not res["witnesses"] and "test result: FAILED" in out:
            # a companion test died on a panic that is NOT one of its own WITNESS panics: if the panic comes from the
            # repository's code (not from the companion file or a dependency), the real code panicked while being driven
            lines = out.split("\n")
            for i, ln in enumerate(lines):
                mp = re.search(r"panicked at ((?:bitar/)?src/[^:]+:\d+:\d+):", ln)
                if mp and "tests/verif_" not in ln:
                    msg = lines[i + 1].strip() if i + 1 < len(lines) else ""
                    res["witnesses"].append(json.dumps({"kind": "PANIC", "what": "the real code panicked while the companion drove it",
                                                        "detail": "%s: %s" % (mp.group(1), msg[:300])}))
                    break
        if res["witnesses"]:
            res["status"] = "witness"
        elif "test result: ok" in out and p.returncode == 0:
            res["status"] = "ok"
        else:
            res["status"] = "error"
        res["wall_s"] = time.time() - t0
    return res


def setup(repo):
    rc = 0
    for f, tests, pkg in [("companions/chunker_companion.rs", ["c09_large_window_agreement"], "bitar"),
                          ("companions/archive_companion.rs", ["c07_range_requests"], "bitar"),
                          ("companions/reader_companion.rs", ["c08_local_reader"], "bitar"),
                          ("companions/clone_companion.rs", ["c05_crash_and_rerun"], "bitar"),
                          ("companions/cli_companion.rs", ["c04_cli_clone"], "bita")]:
        r = run_companion(repo, f, tests, timeout=1800, package=pkg)
        print("native companion setup %s: %s (%d cases, %.0fs)" % (f, r["status"], r["cases"], r["wall_s"]))
        if r["status"] != "ok":
            print(r["out_tail"][-1500:])
            rc = 1
    return rc
