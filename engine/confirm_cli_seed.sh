#!/bin/bash
# confirm_cli_seed.sh <seed-dir with patch.diff + demo.sh> <scratch worktree> <target dir>
# Confirms a seeded change whose demonstration drives the built `bita` binary:
#  patch applies; full suite passes with it; demo.sh fails with the patch and passes without it.
SEED=$1; WT=$2; TGT=$3
cd "$WT" && git checkout -q -- . && git clean -fdq
git apply "$SEED/patch.diff" || { echo "CONFIRM: patch does not apply"; exit 3; }
R=$(CARGO_TARGET_DIR=$TGT cargo test --offline --workspace 2>&1 | grep -E "^test result" | awk '{p+=$4; f+=$6} END {print p, f}')
echo "CONFIRM: suite with patch: passed/failed = $R"
CARGO_TARGET_DIR=$TGT cargo build --offline -q 2>&1 | tail -2
bash "$SEED/demo.sh" "$TGT/debug/bita" > /tmp/seed_demo_with.txt 2>&1; echo "CONFIRM: demo with patch rc=$?"
git checkout -q -- . && git clean -fdq
CARGO_TARGET_DIR=$TGT cargo build --offline -q 2>&1 | tail -2
bash "$SEED/demo.sh" "$TGT/debug/bita" > /tmp/seed_demo_without.txt 2>&1; echo "CONFIRM: demo without patch rc=$?"
