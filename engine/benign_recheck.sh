#!/bin/bash
OUT=/verif/seeded/benign_recheck_session4.tsv; : > $OUT
for D in /verif/seeded/benign/[0-9]* /verif/seeded/benign2/[0-9]*; do
  [ -f $D/patch.diff ] || continue
  F=$(grep '^+++ ' $D/patch.diff | head -1)
  case "$F" in
    *rolling_hash*|*chunker*) PS="C09";;
    *http_*|*io_reader*) PS="C08";;
    *header.rs*|*compress*) PS="C11";;
    *archive.rs*) PS="C17";;
    *clone_cmd*) PS="C04";;
    *chunk.rs*|*hashsum*) PS="C04";;
    *) PS="C15";;
  esac
  git -C /repo apply $D/patch.diff 2>/dev/null || { printf "%s\tNOAPPLY\n" $(basename $(dirname $D))/$(basename $D) >> $OUT; continue; }
  for P in $PS; do
    cd /verif; ./check $P > /tmp/bo.txt 2>&1; RC=$?
    printf "%s\t%s\t%s\t%s\n" $(basename $(dirname $D))/$(basename $D) $P $RC "$(grep -E 'VIOLATION|UNDECIDED' /tmp/bo.txt | head -1 | cut -c1-200)" >> $OUT
  done
  git -C /repo checkout -- .
done
echo DONE >> $OUT
