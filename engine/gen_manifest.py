#!/usr/bin/env python3
"""Writes MANIFEST.json from units/units.json + manifest_meta.json (kept in sync by hand)."""
import json, os
ROOT = os.path.dirname(os.path.dirname(os.path.abspath(__file__)))
meta = json.load(open(os.path.join(ROOT, "manifest_meta.json")))
cfg = json.load(open(os.path.join(ROOT, "units", "units.json")))
checks = []
for pid in sorted(cfg["properties"]):
    m = meta["checks"][pid]
    checks.append({
        "property_id": pid,
        "quick_cmd": "./check %s --tier quick" % pid,
        "thorough_cmd": "./check %s --tier thorough" % pid,
        "evidence_file": "/verif/evidence/%s.json" % pid,
        "replay_cmd_template": "./check --replay {path}",
        "engine": "contracts",
        "level_claimed": {"category": "proof", "text": m["level_text"], "design_ref": m["design_ref"]},
        "level_note": m["level_note"],
        "technique": m["technique"],
    })
na = [{"property_id": k, "reason": v} for k, v in sorted(meta["not_applicable"].items()) if k not in cfg["properties"]]
man = {
    "version": 1,
    "setup_cmd": "./check --setup",
    "hooks": meta["hooks"],
    "engines": [{"name": "contracts", "path": "/verif/engine", "serves_properties": sorted(cfg["properties"]),
                 "kind_free_text": "contract-based deductive verification: Verus (single-file units re-extracted from /repo on every run) + Kani function contracts / complete harnesses injected into a scratch copy of /repo"}],
    "checks": checks,
    "notes": meta["notes"],
    "not_applicable": na,
}
json.dump(man, open(os.path.join(ROOT, "MANIFEST.json"), "w"), indent=1)
print("MANIFEST.json: %d checks, %d not applicable" % (len(checks), len(na)))
