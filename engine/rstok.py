"""Minimal Rust tokenizer + item locator used by the extractor.

Comment-, string-, raw-string-, char- and lifetime-aware.  It does not parse Rust; it
finds items (fn / struct / enum / const / static / trait / impl blocks) by keyword and
balanced delimiters, which is all the extractor needs.  Anything it cannot locate is a
"lost anchor" (LostAnchor), never a guess.
"""
import re


class LostAnchor(Exception):
    pass


class Unsupported(Exception):
    pass


class Tok:
    __slots__ = ("kind", "text", "start", "end")

    def __init__(self, kind, text, start, end):
        self.kind = kind      # 'id', 'num', 'str', 'char', 'life', 'punct', 'comment'
        self.text = text
        self.start = start
        self.end = end

    def __repr__(self):
        return "Tok(%s,%r,%d)" % (self.kind, self.text, self.start)


_ID = re.compile(r"[A-Za-z_][A-Za-z0-9_]*")
_NUM = re.compile(r"[0-9][0-9A-Za-z_]*(\.[0-9][0-9A-Za-z_]*)?")
_PUNCT3 = ("<<=", ">>=", "...", "..=")
_PUNCT2 = ("::", "->", "=>", "==", "!=", "<=", ">=", "&&", "||", "+=", "-=", "*=", "/=",
           "%=", "^=", "&=", "|=", "<<", ">>", "..")


def tokenize(src, keep_comments=False):
    toks = []
    i, n = 0, len(src)
    while i < n:
        c = src[i]
        if c.isspace():
            i += 1
            continue
        if src.startswith("//", i):
            j = src.find("\n", i)
            j = n if j < 0 else j
            if keep_comments:
                toks.append(Tok("comment", src[i:j], i, j))
            i = j
            continue
        if src.startswith("/*", i):
            depth, j = 1, i + 2
            while j < n and depth:
                if src.startswith("/*", j):
                    depth += 1
                    j += 2
                elif src.startswith("*/", j):
                    depth -= 1
                    j += 2
                else:
                    j += 1
            if keep_comments:
                toks.append(Tok("comment", src[i:j], i, j))
            i = j
            continue
        # raw strings / byte strings
        m = re.match(r"(b?r)(#*)\"", src[i:i + 40])
        if m:
            hashes = m.group(2)
            close = '"' + hashes
            j = src.find(close, i + len(m.group(0)))
            if j < 0:
                raise Unsupported("unterminated raw string")
            j += len(close)
            toks.append(Tok("str", src[i:j], i, j))
            i = j
            continue
        if c == '"' or (c == 'b' and i + 1 < n and src[i + 1] == '"'):
            j = i + (2 if c == 'b' else 1)
            while j < n and src[j] != '"':
                j += 2 if src[j] == '\\' else 1
            j += 1
            toks.append(Tok("str", src[i:j], i, j))
            i = j
            continue
        if c == "'" or (c == 'b' and i + 1 < n and src[i + 1] == "'"):
            k = i + (1 if c == 'b' else 0)
            # char literal or lifetime
            m = re.match(r"'(\\(x[0-9a-fA-F]{2}|u\{[0-9a-fA-F_]+\}|.)|[^\\'])'", src[k:k + 16])
            if m:
                j = k + len(m.group(0))
                toks.append(Tok("char", src[i:j], i, j))
                i = j
                continue
            m = re.match(r"'[A-Za-z_][A-Za-z0-9_]*", src[k:k + 64])
            if m and c == "'":
                j = k + len(m.group(0))
                toks.append(Tok("life", src[i:j], i, j))
                i = j
                continue
            raise Unsupported("cannot lex quote at %d" % i)
        m = _ID.match(src, i)
        if m:
            toks.append(Tok("id", m.group(0), i, m.end()))
            i = m.end()
            continue
        m = _NUM.match(src, i)
        if m:
            # do not swallow a range "0..n" as a float
            text = m.group(0)
            if "." in text and src.startswith("..", i + text.index(".")):
                text = text[:text.index(".")]
            toks.append(Tok("num", text, i, i + len(text)))
            i += len(text)
            continue
        for p in _PUNCT3:
            if src.startswith(p, i):
                toks.append(Tok("punct", p, i, i + 3))
                i += 3
                break
        else:
            for p in _PUNCT2:
                if src.startswith(p, i):
                    toks.append(Tok("punct", p, i, i + 2))
                    i += 2
                    break
            else:
                toks.append(Tok("punct", c, i, i + 1))
                i += 1
    return toks


OPEN = {"(": ")", "[": "]", "{": "}"}
CLOSE = {")", "]", "}"}


def match_close(toks, i):
    """toks[i] is an opening delimiter; return index of its matching close."""
    assert toks[i].text in OPEN, toks[i]
    depth = 0
    for j in range(i, len(toks)):
        t = toks[j]
        if t.kind != "punct":
            continue
        if t.text in OPEN:
            depth += 1
        elif t.text in CLOSE:
            depth -= 1
            if depth == 0:
                return j
    raise Unsupported("unbalanced delimiter at %d" % toks[i].start)


def norm(s):
    return re.sub(r"\s+", "", s)


class Item:
    def __init__(self, kind, name, header, start, end, body_open, body_close, tok_lo, tok_hi):
        self.kind = kind          # fn/struct/enum/const/static/trait/impl/type
        self.name = name          # identifier, or normalized header for impl
        self.header = header
        self.start = start        # char offset of first token (after attributes/doc)
        self.end = end            # char offset one past the item
        self.body_open = body_open    # char offset of '{' (None for ';' items)
        self.body_close = body_close  # char offset of matching '}'
        self.tok_lo = tok_lo
        self.tok_hi = tok_hi      # inclusive


ITEM_KW = {"fn", "struct", "enum", "const", "static", "trait", "impl", "type", "mod"}
QUALIFIERS = {"pub", "async", "unsafe", "extern", "default"}


def items_in(src, toks, lo, hi):
    """Yield top-level items among toks[lo:hi] (a module body or an impl/trait body)."""
    i = lo
    while i < hi:
        t = toks[i]
        # skip attributes
        if t.text == "#":
            j = i + 1
            if toks[j].text == "!":
                j += 1
            if toks[j].text == "[":
                i = match_close(toks, j) + 1
                continue
        j = i
        # qualifiers: pub, pub(crate), async, const fn, unsafe
        while j < hi and toks[j].kind == "id" and toks[j].text in QUALIFIERS:
            j += 1
            if j < hi and toks[j].text == "(" and toks[j - 1].text == "pub":
                j = match_close(toks, j) + 1
            if j < hi and toks[j].kind == "str" and toks[j - 1].text == "extern":
                j += 1
        if j < hi and toks[j].text == "const" and j + 1 < hi and toks[j + 1].text in ("fn", "async", "unsafe"):
            j += 1
            while toks[j].text in ("async", "unsafe"):
                j += 1
        if j >= hi or toks[j].kind != "id" or toks[j].text not in ITEM_KW:
            # something else (use, macro invocation, ...): skip to ';' or balanced block
            k = i
            while k < hi and toks[k].text not in (";", "{"):
                if toks[k].text in ("(", "["):
                    k = match_close(toks, k)
                k += 1
            if k < hi and toks[k].text == "{":
                k = match_close(toks, k)
                if k + 1 < hi and toks[k + 1].text == ";":
                    k += 1
            i = k + 1
            continue
        kw = toks[j].text
        # find body start or ';'
        k = j + 1
        angle = 0
        while k < hi:
            tx = toks[k].text
            if toks[k].kind == "punct":
                if tx in ("(", "["):
                    k = match_close(toks, k)
                elif tx == "<":
                    angle += 1
                elif tx == ">" and angle > 0:
                    angle -= 1
                elif tx == ">>" and angle > 1:
                    angle -= 2
                elif tx == "{" and (kw not in ("const", "static", "type")):
                    break
                elif tx == ";":
                    break
                elif tx == "{":
                    k = match_close(toks, k)
            k += 1
        if k >= hi:
            raise Unsupported("item without end at %d" % toks[i].start)
        if toks[k].text == "{":
            close = match_close(toks, k)
            body_open, body_close, last = toks[k].start, toks[close].start, close
        else:
            body_open = body_close = None
            last = k
        header = src[toks[i].start:toks[k].start]
        if kw == "impl":
            name = norm(src[toks[j].start:toks[k].start])
        else:
            name = toks[j + 1].text if j + 1 < hi else ""
        yield Item(kw, name, header, toks[i].start, toks[last].end, body_open, body_close, i, last)
        i = last + 1


def find_item(src, path):
    """path: list of segments, e.g. ['impl RollSum', 'fn new'] or ['fn build'] or
    ['mod tests', 'fn x'].  impl headers are matched after whitespace removal; where
    clauses after the impl header may be given or omitted."""
    toks = tokenize(src)
    lo, hi = 0, len(toks)
    item = None
    for seg in path:
        seg = seg.strip()
        mk = re.match(r"(impl|fn|struct|enum|const|static|trait|type|mod)\b(.*)$", seg, re.S)
        if not mk:
            raise LostAnchor("bad path segment %r" % seg)
        kind, rest = mk.group(1), mk.group(2)
        found = None
        for it in items_in(src, toks, lo, hi):
            if it.kind != kind:
                continue
            if kind == "impl":
                want = norm(seg)
                have = it.name
                if have == want or have.startswith(want + "where"):
                    found = it
                    break
            elif it.name == rest.strip():
                found = it
                break
        if found is None:
            raise LostAnchor("item %r not found (path %r)" % (seg, path))
        item = found
        if found.body_open is not None:
            # descend: tokens strictly inside the braces
            open_idx = next(k for k in range(found.tok_lo, found.tok_hi + 1)
                            if toks[k].start == found.body_open)
            lo, hi = open_idx + 1, found.tok_hi
    return item, toks
