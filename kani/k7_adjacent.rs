// K7 — bounded Kani companion of Verus unit u7_adjacent: ChunkReader::adjacent_reads on every slice of
// length 1..=5 (symbolic offsets and sizes).  BOUNDED (length <= 5): listed under "bounded" in the evidence and
// never counted as proved; its job is to produce a concrete counterexample, replayed natively, when the function
// stops being the maximal-adjacent-prefix function -- including when it has been rewritten so that the Verus
// unit can no longer be assembled.
//@desugar bitar/src/archive_reader/http_reader.rs :: impl ChunkReader<'_> :: fn adjacent_reads :: R3 :: adjacent_reads__desugared
//@inject bitar/src/archive_reader/http_reader.rs
#[cfg(kani)]
mod verif_kani {
    use super::*;
    #[allow(unused_imports)]
    use crate::ChunkOffset;

    #[kani::proof]
    #[kani::unwind(7)]
    fn adjacent_reads_bounded() {
        const N: usize = 5;
        let mut arr = [ChunkOffset::new(0, 0); N];
        let mut i = 0;
        while i < N {
            let offset: u64 = kani::any();
            let size: u32 = kani::any();
            kani::assume(offset <= u64::MAX / 4);
            arr[i] = ChunkOffset::new(offset, size as usize);
            i += 1;
        }
        let n: usize = kani::any();
        kani::assume(n >= 1 && n <= N);
        let r = ChunkReader::adjacent_reads(&arr[..n]);
        // oracle: length of the maximal prefix in which every entry starts where its predecessor ends
        let mut want = 1;
        while want < n && arr[want - 1].offset + arr[want - 1].size as u64 == arr[want].offset {
            want += 1;
        }
        assert!(r == want);
        kani::cover!(r == N);
        kani::cover!(r == 1 && n > 1);
    }

    /// translation validation of rule R3: the real iterator chain and the desugared index loop agree
    #[kani::proof]
    #[kani::unwind(7)]
    fn tv_rule_r3_adjacent_reads() {
        const N: usize = 5;
        let mut arr = [ChunkOffset::new(0, 0); N];
        let mut i = 0;
        while i < N {
            let offset: u64 = kani::any();
            let size: u32 = kani::any();
            kani::assume(offset <= u64::MAX / 4);
            arr[i] = ChunkOffset::new(offset, size as usize);
            i += 1;
        }
        let n: usize = kani::any();
        kani::assume(n >= 1 && n <= N);
        assert!(ChunkReader::adjacent_reads(&arr[..n]) == ChunkReader::adjacent_reads__desugared(&arr[..n]));
    }
}
