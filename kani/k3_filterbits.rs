// K3fb — Kani FUNCTION CONTRACT (modular route): FilterBits::mask carries requires/ensures attributes (inserted under
// cfg(kani) into the scratch copy), proved by a proof_for_contract harness over all u32 bit counts, and USED through
// stub_verified by the harness of its caller RollingHashChunker::new, which therefore sees only the contract.
//@attr bitar/src/chunker/config.rs :: impl FilterBits :: fn mask
    #[cfg_attr(kani, kani::requires(self.0 >= 1 && self.0 <= 32))]
    #[cfg_attr(kani, kani::ensures(|r: &u32| *r == if self.0 == 32 { u32::MAX } else { (1u32 << self.0) - 1 }))]
//@end
//@inject bitar/src/chunker/config.rs
#[cfg(kani)]
mod verif_kani {
    use super::*;

    /// the contract of FilterBits::mask holds for every bit count (complete: full u32 domain, loop-free)
    #[kani::proof_for_contract(FilterBits::mask)]
    fn filterbits_mask_contract() {
        let bits: u32 = kani::any();
        FilterBits(bits).mask();
    }

    /// FilterBits::{from_bits, bits} are inverse; chunk_target_average is total for bits <= 30
    #[kani::proof]
    fn filterbits_accessors() {
        let bits: u32 = kani::any();
        assert!(FilterBits::from_bits(bits).bits() == bits);
        if bits <= 30 {
            assert!(FilterBits(bits).chunk_target_average() as u64 == 1u64 << (bits + 1));
        }
    }
}
//@inject bitar/src/chunker/rolling_hash.rs
#[cfg(kani)]
mod verif_kani_new {
    use super::*;
    use crate::chunker::{FilterBits, FilterConfig};

    #[derive(Clone, Copy)]
    struct Nop;
    impl RollingHash for Nop {
        fn init_done(&self) -> bool { true }
        fn init(&mut self, _v: u8) {}
        fn input(&mut self, _v: u8) {}
        fn sum(&self) -> u32 { 0 }
    }

    /// RollingHashChunker::new against the CONTRACT of mask (stub_verified): mask, limits and the skip target
    #[kani::proof]
    #[kani::stub_verified(FilterBits::mask)]
    fn chunker_new_uses_mask_contract() {
        let bits: u32 = kani::any();
        kani::assume(bits >= 1 && bits <= 32);
        let cfg = FilterConfig { filter_bits: FilterBits(bits), min_chunk_size: kani::any(), max_chunk_size: kani::any(), window_size: kani::any() };
        let c = RollingHashChunker::new(Nop, &cfg);
        assert!(c.filter_mask == if bits == 32 { u32::MAX } else { (1u32 << bits) - 1 });
        assert!(c.min_chunk_size == cfg.min_chunk_size && c.max_chunk_size == cfg.max_chunk_size && c.offset == 0);
        assert!(c.hash_input_limit == if cfg.min_chunk_size >= cfg.window_size { cfg.min_chunk_size - cfg.window_size } else { 0 });
    }
}
