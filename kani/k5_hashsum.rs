// K5a — HashSum (bitar/src/hashsum.rs).  Every harness is a complete proof: the domain is the
// full [u8;64] x lengths 0..=64 (and input slices of every length 0..=80); every loop
// (memcmp / memcpy) is bounded by 80 and unwinding assertions are on.
//@inject bitar/src/hashsum.rs
#[cfg(kani)]
mod verif_kani {
    use super::*;

    fn any_hashsum() -> HashSum {
        let sum: [u8; 64] = kani::any();
        let length: usize = kani::any();
        kani::assume(length <= HashSum::MAX_LEN);
        HashSum { sum, length }
    }

    /// truncate(n): length becomes min(length, n); bytes untouched.
    #[kani::proof]
    #[kani::unwind(82)]
    fn hashsum_truncate() {
        let h0 = any_hashsum();
        let mut h = h0.clone();
        let n: usize = kani::any();
        h.truncate(n);
        assert!(h.length == if h0.length > n { n } else { h0.length });
        assert!(h.sum == h0.sum);
        assert!(h.len() == h.length && h.is_empty() == (h.length == 0));
        kani::cover!(h.length < h0.length);
    }

    /// slice() is exactly sum[..length]
    #[kani::proof]
    #[kani::unwind(82)]
    fn hashsum_slice() {
        let h = any_hashsum();
        let s = h.slice();
        assert!(s.len() == h.length);
        let i: usize = kani::any();
        kani::assume(i < s.len());
        assert!(s[i] == h.sum[i]);
    }

    /// From<&[u8]> is total: length = min(|v|, 64), prefix copied, rest zero.
    #[kani::proof]
    #[kani::unwind(82)]
    fn hashsum_from_slice() {
        let data: [u8; 80] = kani::any();
        let n: usize = kani::any();
        kani::assume(n <= 80);
        let h = HashSum::from(&data[..n]);
        assert!(h.length == if n < 64 { n } else { 64 });
        let i: usize = kani::any();
        kani::assume(i < 64);
        if i < h.length {
            assert!(h.sum[i] == data[i]);
        } else {
            assert!(h.sum[i] == 0);
        }
        kani::cover!(n > 64);
        kani::cover!(n == 0);
    }

    /// PartialEq<HashSum>: equality of the common prefix of length min(len_a, len_b)
    /// (contract taken from the code), hence with equal lengths: equality of the slices.
    #[kani::proof]
    #[kani::unwind(82)]
    fn hashsum_eq_hashsum() {
        let a = any_hashsum();
        let b = any_hashsum();
        let m = if a.length < b.length { a.length } else { b.length };
        let eq = a == b;
        let i: usize = kani::any();
        kani::assume(i < m);
        if eq {
            assert!(a.sum[i] == b.sum[i]);
        }
        if a.length == b.length && eq {
            assert!(a.slice() == b.slice());
        }
        if a.length == b.length && a.slice() == b.slice() {
            assert!(eq);
        }
        kani::cover!(eq && m > 0);
        kani::cover!(!eq);
    }

    /// !eq  =>  some byte of the common prefix differs
    #[kani::proof]
    #[kani::unwind(82)]
    fn hashsum_ne_hashsum() {
        let a = any_hashsum();
        let b = any_hashsum();
        let m = if a.length < b.length { a.length } else { b.length };
        if a != b {
            assert!(a.sum[..m] != b.sum[..m]);
            assert!(m > 0);
        } else {
            assert!(a.sum[..m] == b.sum[..m]);
        }
    }

    /// PartialEq<&[u8]>: same prefix rule against a raw slice
    #[kani::proof]
    #[kani::unwind(82)]
    fn hashsum_eq_slice() {
        let a = any_hashsum();
        let data: [u8; 80] = kani::any();
        let n: usize = kani::any();
        kani::assume(n <= 80);
        let other: &[u8] = &data[..n];
        let m = if a.length < n { a.length } else { n };
        let eq = a == other;
        assert!(eq == (a.sum[..m] == data[..m]));
        if n == a.length {
            assert!(eq == (a.slice() == other));
        }
    }

    /// to_vec() is the stored sum cut to its length (what the writers record as descriptor checksum)
    #[kani::proof]
    #[kani::unwind(82)]
    fn hashsum_to_vec() {
        let h = any_hashsum();
        let v = h.to_vec();
        assert!(v.len() == h.length);
        let i: usize = kani::any();
        kani::assume(i < v.len());
        assert!(v[i] == h.sum[i]);
    }
}
