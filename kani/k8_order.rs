// K8 — the key order the in-place planner's location map relies on (bitar/src/chunk_offset.rs): `Ord for ChunkOffset` is the
// lexicographic order on (offset, size), `PartialOrd` agrees with it, `end()` is offset + size.  ChunkLocationMap::iter_overlapping
// selects its candidates with a BTreeMap range bounded by `ChunkOffset::new(end, 0)`, i.e. it relies on exactly this order
// (offset-major, size as tie-break, (x, 0) the least key at offset x).  Loop-free harnesses over the full u64 x usize domain:
// complete proofs, not bounded ones.  The planner itself (BTreeMap/HashSet/closures) stays out of reach.
//@inject bitar/src/chunk_offset.rs
#[cfg(kani)]
mod verif_kani {
    use super::*;
    #[allow(unused_imports)]
    use std::cmp::Ordering;

    #[kani::proof]
    fn chunk_offset_cmp_is_lexicographic() {
        let a = ChunkOffset::new(kani::any(), kani::any());
        let b = ChunkOffset::new(kani::any(), kani::any());
        let want = if a.offset < b.offset { Ordering::Less } else if a.offset > b.offset { Ordering::Greater }
                   else if a.size < b.size { Ordering::Less } else if a.size > b.size { Ordering::Greater } else { Ordering::Equal };
        assert!(a.cmp(&b) == want);
        assert!(a.partial_cmp(&b) == Some(want));
        assert!((a == b) == (want == Ordering::Equal));
        // (x, 0) is the least key at offset x: everything that starts before x sorts below it, everything at or after x not
        let bound = ChunkOffset::new(b.offset, 0);
        assert!((a < bound) == (a.offset < b.offset));
        kani::cover!(want == Ordering::Less && a.offset == b.offset);
        kani::cover!(want == Ordering::Greater);
    }

    #[kani::proof]
    fn chunk_offset_end() {
        let offset: u64 = kani::any();
        let size: usize = kani::any();
        kani::assume((offset as u128) + (size as u128) <= u64::MAX as u128);
        let c = ChunkOffset::new(offset, size);
        assert!(c.offset == offset && c.size == size);
        assert!(c.end() as u128 == offset as u128 + size as u128);
        kani::cover!(size > 0 && offset > 0);
    }
}
