// K6 — decoding functions of bitar/src/archive.rs and bitar/src/compression.rs.
// Loop-free (or bounded by the 14-byte pre-header) harnesses over the full u32/i32 domains: complete proofs.
//@inject bitar/src/archive.rs
#[cfg(kani)]
mod verif_kani {
    use super::*;
    #[allow(unused_imports)]
    use crate::{chunk_dictionary as dict, chunker, compression::CompressionAlgorithm, header, Compression, HashSum};

    /// verify_pre_header: total for every slice of length 0..=16; Ok <=> the first six bytes are one of the two magics.
    #[kani::proof]
    #[kani::unwind(20)]
    fn pre_header_magic() {
        let data: [u8; 16] = kani::any();
        let n: usize = kani::any();
        kani::assume(n <= 16);
        let r = Archive::<()>::verify_pre_header::<()>(&data[..n]);
        let is_magic = n >= 6
            && (data[..6] == *b"BITA1\0" || data[..6] == *b"\0BITA1");
        assert!(r.is_ok() == is_magic);
        kani::cover!(r.is_ok() && data[0] == 0);
        kani::cover!(r.is_ok() && data[0] == b'B');
        kani::cover!(n < 6);
    }

    fn any_params() -> dict::ChunkerParameters {
        dict::ChunkerParameters {
            chunk_filter_bits: kani::any(),
            min_chunk_size: kani::any(),
            max_chunk_size: kani::any(),
            rolling_hash_window_size: kani::any(),
            chunk_hash_length: kani::any(),
            chunking_algorithm: kani::any(),
        }
    }

    /// validity predicate of a decoded chunker configuration = the conjunction of the preconditions of
    /// its consumers (proved in the Verus units U1-U3 and in FilterBits): see DESIGN.md U3 / U6.
    pub(crate) fn config_valid(c: &chunker::Config) -> bool {
        match c {
            chunker::Config::BuzHash(f) => filter_valid(f) && f.window_size <= f.max_chunk_size,
            chunker::Config::RollSum(f) => filter_valid(f),
            chunker::Config::FixedSize(n) => *n >= 1,
        }
    }
    fn filter_valid(f: &chunker::FilterConfig) -> bool {
        let bits = f.filter_bits.bits();
        bits >= 1 && bits <= 30
            && f.window_size >= 1
            && f.max_chunk_size >= 1
            && f.min_chunk_size <= f.max_chunk_size
    }

    /// chunker_config_from_params: total; Ok(c) => c is valid and reports the stored values verbatim;
    /// an unknown algorithm is an error.
    #[kani::proof]
    fn chunker_config_decode() {
        let p = any_params();
        let q = p.clone();
        match chunker_config_from_params::<()>(p) {
            Ok(c) => {
                assert!(config_valid(&c));
                match c {
                    chunker::Config::BuzHash(f) => {
                        assert!(q.chunking_algorithm == 0);
                        assert!(f.filter_bits.bits() == q.chunk_filter_bits
                            && f.min_chunk_size == q.min_chunk_size as usize
                            && f.max_chunk_size == q.max_chunk_size as usize
                            && f.window_size == q.rolling_hash_window_size as usize);
                    }
                    chunker::Config::RollSum(f) => {
                        assert!(q.chunking_algorithm == 1);
                        assert!(f.filter_bits.bits() == q.chunk_filter_bits
                            && f.min_chunk_size == q.min_chunk_size as usize
                            && f.max_chunk_size == q.max_chunk_size as usize
                            && f.window_size == q.rolling_hash_window_size as usize);
                    }
                    chunker::Config::FixedSize(n) => {
                        assert!(q.chunking_algorithm == 2);
                        assert!(n == q.max_chunk_size as usize);
                    }
                }
            }
            Err(_) => {
                // every valid parameter set of a known algorithm is accepted
                let known = q.chunking_algorithm >= 0 && q.chunking_algorithm <= 2;
                if known {
                    let c = match q.chunking_algorithm {
                        0 => chunker::Config::BuzHash(chunker::FilterConfig {
                            filter_bits: chunker::FilterBits::from_bits(q.chunk_filter_bits),
                            min_chunk_size: q.min_chunk_size as usize,
                            max_chunk_size: q.max_chunk_size as usize,
                            window_size: q.rolling_hash_window_size as usize }),
                        1 => chunker::Config::RollSum(chunker::FilterConfig {
                            filter_bits: chunker::FilterBits::from_bits(q.chunk_filter_bits),
                            min_chunk_size: q.min_chunk_size as usize,
                            max_chunk_size: q.max_chunk_size as usize,
                            window_size: q.rolling_hash_window_size as usize }),
                        _ => chunker::Config::FixedSize(q.max_chunk_size as usize),
                    };
                    assert!(!config_valid(&c));
                }
            }
        }
    }

    /// compression_from_dictionary: total over all (i32, u32); decodes NONE/BROTLI, rejects everything this build
    /// cannot decompress and every unknown value; never invents a level.
    #[kani::proof]
    fn compression_decode() {
        let c = dict::ChunkCompression { compression: kani::any(), compression_level: kani::any() };
        let q = c.clone();
        match compression_from_dictionary::<()>(c) {
            Ok(None) => assert!(q.compression == 0),
            Ok(Some(comp)) => {
                assert!(q.compression == 3 && comp.algorithm == CompressionAlgorithm::Brotli);
                assert!(comp.level == q.compression_level);
            }
            Err(_) => assert!(q.compression != 0 && q.compression != 3),
        }
    }

    /// writer/reader round trip of the compression setting: decode(encode(c)) == c for every setting the writer can hold.
    #[kani::proof]
    fn compression_round_trip() {
        let level: u32 = kani::any();
        let c: Option<Compression> = if kani::any() { Some(Compression { algorithm: CompressionAlgorithm::Brotli, level }) } else { None };
        let enc: dict::ChunkCompression = c.into();
        match compression_from_dictionary::<()>(enc) {
            Ok(d) => assert!(d == c),
            Err(_) => assert!(false),
        }
    }

    /// Compression::try_new accepts exactly 1..=max_level
    #[kani::proof]
    fn compression_try_new() {
        let level: u32 = kani::any();
        let r = Compression::try_new(CompressionAlgorithm::Brotli, level);
        assert!(r.is_ok() == (level >= 1 && level <= 11));
        if let Ok(c) = r { assert!(c.level == level && c.algorithm == CompressionAlgorithm::Brotli); }
    }

    /// ChunkDescriptor::archive_end_offset == offset + size whenever that fits u64
    #[kani::proof]
    fn descriptor_end_offset() {
        let off: u64 = kani::any();
        let size: usize = kani::any();
        kani::assume((off as u128) + (size as u128) <= u64::MAX as u128);
        let cd = ChunkDescriptor { checksum: HashSum::from(&[0u8; 0][..]), archive_size: size, archive_offset: off, source_size: kani::any() };
        assert!(cd.archive_end_offset() as u128 == off as u128 + size as u128);
    }

    /// mock inner stream: yields a symbolic item per poll
    struct MockStream { polls: u8 }
    #[derive(Clone, Copy, PartialEq, Debug)]
    enum Item { Ok(u8), Err(u8), End, Pending }
    fn any_item() -> Item {
        let k: u8 = kani::any();
        let v: u8 = kani::any();
        match k % 4 { 0 => Item::Ok(v), 1 => Item::Err(v), 2 => Item::End, _ => Item::Pending }
    }
    impl Stream for MockStream {
        type Item = Result<u8, u8>;
        fn poll_next(mut self: std::pin::Pin<&mut Self>, _cx: &mut std::task::Context<'_>) -> Poll<Option<Self::Item>> {
            self.polls += 1;
            match any_item() {
                Item::Ok(v) => Poll::Ready(Some(Ok(v))),
                Item::Err(v) => Poll::Ready(Some(Err(v))),
                Item::End => Poll::Ready(None),
                Item::Pending => Poll::Pending,
            }
        }
    }

    /// StreamUntilFirstError: items are forwarded unchanged; after the first Err every poll returns None
    /// WITHOUT polling the inner stream again (three polls, all inner behaviours).
    #[kani::proof]
    #[kani::unwind(5)]
    fn stream_until_first_error() {
        let mut s = StreamUntilFirstError::new(MockStream { polls: 0 });
        let waker = std::task::Waker::noop();
        let mut cx = std::task::Context::from_waker(&waker);
        let mut seen_err = false;
        let mut i = 0;
        while i < 3 {
            let before = s.stream.polls;
            let r = std::pin::Pin::new(&mut s).poll_next(&mut cx);
            if seen_err {
                assert!(matches!(r, Poll::Ready(None)));
                assert!(s.stream.polls == before);
            } else {
                assert!(s.stream.polls == before + 1);
                if let Poll::Ready(Some(Err(_))) = r { seen_err = true; }
                assert!(s.end == seen_err);
            }
            i += 1;
        }
        kani::cover!(seen_err);
    }
}
