// K5b — chunk.rs type-state: ArchiveChunk::verify, VerifiedChunk::new, CompressedArchiveChunk::decompress (raw).
// Blake2b-512 is replaced (kani::stub) by a stand-in returning a fixed 64-byte digest D, so the proofs are about
// how the functions USE the digest: for every descriptor hash of every length 0..=64, verify returns Ok exactly
// when the hash equals the first |hash| bytes of D.  The chunk payload is a fixed 3-byte static buffer (verify has
// no payload-dependent control flow besides the digest; a symbolic payload only multiplies CBMC time).
//@inject bitar/src/chunk.rs
#[cfg(kani)]
mod verif_kani {
    use super::*;
    #[allow(unused_imports)]
    use crate::{Compression, HashSum};

    const D: u8 = 0x5a;
    /// stand-in for HashSum::b2_digest
    pub(crate) fn const_digest(_data: &[u8]) -> HashSum {
        let sum = [D; 64];
        HashSum::from(&sum[..])
    }

    fn any_hash() -> (HashSum, [u8; 64], usize) {
        let exp: [u8; 64] = kani::any();
        let el: usize = kani::any();
        kani::assume(el <= 64);
        (HashSum::from(&exp[..el]), exp, el)
    }

    /// Ok(v) only if the descriptor hash equals the first |hash| bytes of the digest of the delivered bytes,
    /// and v carries exactly the delivered bytes and the truncated digest.
    #[kani::proof]
    #[kani::stub(HashSum::b2_digest, const_digest)]
    #[kani::unwind(66)]
    fn archive_chunk_verify_ok() {
        let (expected, exp, el) = any_hash();
        let ac = ArchiveChunk { chunk: Chunk(Bytes::from_static(&[1, 2, 3])), expected_hash: expected };
        assert!(ac.len() == 3);
        match ac.verify() {
            Ok(v) => {
                assert!(v.hash_sum.len() == el);
                let i: usize = kani::any();
                kani::assume(i < el);
                assert!(exp[i] == D);
                assert!(v.hash_sum.slice()[i] == D);
                assert!(v.chunk.len() == 3 && v.chunk.data()[0] == 1 && v.chunk.data()[1] == 2 && v.chunk.data()[2] == 3);
                kani::cover!(el == 64);
            }
            Err(e) => {
                assert!(e.invalid_chunk.len() == 3 && e.invalid_chunk.data()[2] == 3);
                kani::cover!(el == 1);
            }
        }
    }

    /// Err only if the descriptor hash differs from the truncated digest (no spurious rejection)
    #[kani::proof]
    #[kani::stub(HashSum::b2_digest, const_digest)]
    #[kani::unwind(66)]
    fn archive_chunk_verify_err() {
        let (expected, exp, el) = any_hash();
        let ac = ArchiveChunk { chunk: Chunk(Bytes::new()), expected_hash: expected };
        if ac.verify().is_err() {
            let mut all = true;
            let mut i = 0;
            while i < el {
                if exp[i] != D {
                    all = false;
                }
                i += 1;
            }
            assert!(!all);
        }
    }

    /// VerifiedChunk::new / Chunk::verify hash the bytes they carry (full 64-byte digest).
    #[kani::proof]
    #[kani::stub(HashSum::b2_digest, const_digest)]
    #[kani::unwind(66)]
    fn verified_chunk_new() {
        let v = VerifiedChunk::new(Chunk(Bytes::from_static(&[7, 8])));
        assert!(v.len() == 2 && v.data()[0] == 7 && v.data()[1] == 8);
        assert!(v.hash().len() == 64);
        let i: usize = kani::any();
        kani::assume(i < 64);
        assert!(v.hash().slice()[i] == D);
        let v2 = Chunk(Bytes::from_static(&[9])).verify();
        assert!(v2.len() == 1 && v2.hash().len() == 64 && v2.hash().slice()[i] == D);
    }

    /// decompress of a chunk stored raw (compression None) delivers the stored bytes unchanged and
    /// passes the descriptor hash through untouched.
    #[kani::proof]
    #[kani::unwind(66)]
    fn compressed_archive_chunk_raw_decompress() {
        let (expected, exp, el) = any_hash();
        let cac = CompressedArchiveChunk {
            chunk: CompressedChunk { data: Bytes::from_static(&[4, 5, 6]), source_size: kani::any(), compression: None },
            expected_hash: expected,
        };
        assert!(cac.len() == 3);
        match cac.decompress() {
            Ok(ac) => {
                assert!(ac.chunk.len() == 3 && ac.chunk.data()[0] == 4 && ac.chunk.data()[2] == 6);
                assert!(ac.expected_hash.len() == el);
                let i: usize = kani::any();
                kani::assume(i < el);
                assert!(ac.expected_hash.slice()[i] == exp[i]);
            }
            Err(_) => assert!(false),
        }
    }
}
