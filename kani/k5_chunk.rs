// K5b — chunk.rs type-state: ArchiveChunk::verify, VerifiedChunk::new, CompressedArchiveChunk::decompress (raw).
// Blake2b-512 is replaced (kani::stub) by a deterministic stand-in function of the data, so the proof is
// about how verify USES the digest, for every descriptor hash of every length 0..=64 and every chunk of <= 3 bytes
// (chunk length only feeds the stand-in; verify has no data-dependent control flow besides the comparison).
//@inject bitar/src/chunk.rs
#[cfg(kani)]
mod verif_kani {
    use super::*;

    /// deterministic stand-in for HashSum::b2_digest
    pub(crate) fn stub_digest(data: &[u8]) -> HashSum {
        let mut sum = [0x5au8; 64];
        let mut i = 0;
        while i < data.len() && i < 3 {
            sum[i] = data[i];
            sum[63 - i] = data[i] ^ 0xff;
            i += 1;
        }
        sum[3] = data.len() as u8;
        HashSum::from(&sum[..])
    }

    fn any_chunk() -> (Chunk, [u8; 3], usize) {
        let data: [u8; 3] = kani::any();
        let n: usize = kani::any();
        kani::assume(n <= 3);
        (Chunk(Bytes::copy_from_slice(&data[..n])), data, n)
    }

    fn any_hash() -> (HashSum, usize) {
        let exp: [u8; 64] = kani::any();
        let el: usize = kani::any();
        kani::assume(el <= 64);
        (HashSum::from(&exp[..el]), el)
    }

    /// Ok(v) only if the first |expected| bytes of digest(delivered bytes) equal the descriptor hash,
    /// and v carries exactly the delivered bytes; Err otherwise, carrying the rejected chunk.
    #[kani::proof]
    #[kani::stub(HashSum::b2_digest, stub_digest)]
    #[kani::unwind(82)]
    fn archive_chunk_verify() {
        let (chunk, data, n) = any_chunk();
        let (expected, el) = any_hash();
        let digest = stub_digest(&data[..n]);
        let ac = ArchiveChunk { chunk: chunk.clone(), expected_hash: expected.clone() };
        assert!(ac.len() == n);
        match ac.verify() {
            Ok(v) => {
                assert!(v.chunk == chunk);
                assert!(v.hash_sum.len() == el);
                assert!(v.hash_sum.slice() == &digest.slice()[..el]);
                assert!(expected.slice() == &digest.slice()[..el]);
                kani::cover!(el == 64);
            }
            Err(e) => {
                assert!(expected.slice() != &digest.slice()[..el]);
                assert!(e.invalid_chunk == chunk);
                kani::cover!(el == 1);
            }
        }
    }

    /// VerifiedChunk::new / Chunk::verify hash the bytes they carry (full 64-byte digest).
    #[kani::proof]
    #[kani::stub(HashSum::b2_digest, stub_digest)]
    #[kani::unwind(82)]
    fn verified_chunk_new() {
        let (chunk, data, n) = any_chunk();
        let digest = stub_digest(&data[..n]);
        let v = VerifiedChunk::new(chunk.clone());
        assert!(v.chunk == chunk);
        assert!(v.hash_sum.len() == 64 && v.hash_sum.slice() == digest.slice());
    }

    /// decompress of a chunk stored raw (compression None) delivers the stored bytes unchanged and
    /// passes the descriptor hash through untouched.
    #[kani::proof]
    #[kani::unwind(82)]
    fn compressed_archive_chunk_raw_decompress() {
        let (chunk, data, n) = any_chunk();
        let (expected, el) = any_hash();
        let cac = CompressedArchiveChunk {
            chunk: CompressedChunk { data: chunk.0.clone(), source_size: kani::any(), compression: None },
            expected_hash: expected.clone(),
        };
        assert!(cac.len() == n);
        match cac.decompress() {
            Ok(ac) => {
                assert!(ac.chunk == chunk);
                assert!(ac.expected_hash.len() == el && ac.expected_hash.slice() == expected.slice());
            }
            Err(_) => assert!(false),
        }
    }
}
