// K3tv — translation validation (BOUNDED: buffers <= 5 bytes) of the desugaring rules R1 and R2 on the two functions
// they are applied to.  The engine emits, next to the real function, the text the Verus assembler verifies (same rule
// code), and the harness shows that real and desugared function, started in the same state with a recording mock hasher,
// make the same hasher calls in the same order, end in the same state and return the same value.
//@desugar bitar/src/chunker/rolling_hash.rs :: impl<H> RollingHashChunker<H> :: fn skip_min_chunk :: R1 :: skip_min_chunk__desugared
//@desugar bitar/src/chunker/rolling_hash.rs :: impl<H> RollingHashChunker<H> :: fn scan_for_boundary :: R2 :: scan_for_boundary__desugared
//@inject bitar/src/chunker/rolling_hash.rs
#[cfg(kani)]
mod verif_kani_tv {
    use super::*;

    /// records every input and answers sum() from a symbolic table indexed by the number of inputs so far
    #[derive(Clone, Copy)]
    struct Rec { calls: [u8; 8], n: usize, sums: [u32; 8] }
    impl RollingHash for Rec {
        fn init_done(&self) -> bool { true }
        fn init(&mut self, _v: u8) {}
        fn input(&mut self, v: u8) { if self.n < 8 { self.calls[self.n] = v; } self.n += 1; }
        fn sum(&self) -> u32 { self.sums[self.n % 8] }
    }
    fn same(a: &RollingHashChunker<Rec>, b: &RollingHashChunker<Rec>) -> bool {
        a.offset == b.offset && a.hasher.n == b.hasher.n && a.hasher.calls == b.hasher.calls
            && a.min_chunk_size == b.min_chunk_size && a.max_chunk_size == b.max_chunk_size
            && a.hash_input_limit == b.hash_input_limit && a.filter_mask == b.filter_mask
    }
    fn any_pair(len: usize) -> (RollingHashChunker<Rec>, RollingHashChunker<Rec>) {
        let rec = Rec { calls: [0; 8], n: 0, sums: kani::any() };
        let min: usize = kani::any();
        let max: usize = kani::any();
        let lim: usize = kani::any();
        let offset: usize = kani::any();
        kani::assume(min <= 7 && max <= 7 && lim <= min && offset <= len);
        let mk = || RollingHashChunker { hasher: rec, filter_mask: 1, min_chunk_size: min, max_chunk_size: max, hash_input_limit: lim, offset };
        let mut a = mk();
        let b = mk();
        a.filter_mask = kani::any();
        let mut b = b;
        b.filter_mask = a.filter_mask;
        (a, b)
    }

    #[kani::proof]
    #[kani::unwind(10)]
    fn tv_rule_r1_skip_min_chunk() {
        let data: [u8; 5] = kani::any();
        let len: usize = kani::any();
        kani::assume(len <= 5);
        let (mut a, mut b) = any_pair(len);
        a.skip_min_chunk(&data[..len]);
        b.skip_min_chunk__desugared(&data[..len]);
        assert!(same(&a, &b));
        kani::cover!(a.hasher.n >= 2);
    }

    #[kani::proof]
    #[kani::unwind(10)]
    fn tv_rule_r2_scan_for_boundary() {
        let data: [u8; 5] = kani::any();
        let len: usize = kani::any();
        kani::assume(len <= 5);
        let (mut a, mut b) = any_pair(len);
        kani::assume(a.offset <= a.max_chunk_size);
        let ra = a.scan_for_boundary(&data[..len]);
        let rb = b.scan_for_boundary__desugared(&data[..len]);
        assert!(ra == rb);
        assert!(same(&a, &b));
        kani::cover!(ra && a.hasher.n >= 2);
        kani::cover!(!ra);
    }
}
