#!/bin/sh
# K14 witness: `bita compress` loses the tail of its unflushed temp file.  Usage: ROOT=/path/to/tree sh k14_witness.sh
# Builds the tree, compresses a 300 kB incompressible source 40 times without compression (all chunks stored raw, so the
# chunk data must be exactly 300000 bytes behind the header) and counts archives that are shorter than that.
# Exit 1 if any archive is short (before the fix: more than half of the runs), 0 otherwise.
set -eu
: "${ROOT:?set ROOT to the tree}"
(cd "$ROOT" && cargo build --offline >/dev/null 2>&1) || { echo "cargo build failed"; exit 2; }
B="${CARGO_TARGET_DIR:-$ROOT/target}/debug/bita"
W=$(mktemp -d); trap 'rm -rf "$W"' EXIT
python3 -c "
import random
random.seed(5); open('$W/src.bin','wb').write(bytes(random.getrandbits(8) for _ in range(300000)))"
short=0
for i in $(seq 1 40); do
  rm -f "$W/o.cba"; "$B" compress -i "$W/src.bin" --compression none "$W/o.cba" >/dev/null 2>&1
  python3 - "$W/o.cba" <<'PY' || short=$((short+1))
import sys, struct
b = open(sys.argv[1], 'rb').read()
dsz = struct.unpack('<Q', b[6:14])[0]
sys.exit(0 if len(b) == 14 + dsz + 72 + 300000 else 1)
PY
done
echo "short archives: $short of 40"
[ "$short" -eq 0 ]
