#!/bin/bash
# K16 witness (needs root and a free loop device): `bita clone --seed-output <archive> <block device>` on a device that already
# holds the archived source.  Before the fix ("fix: file_size leaves the file cursor at the start") the scan of the device starts
# at its end: "Used 0 bytes from /dev/loopN" and every chunk is fetched; after it all chunks but the last (which runs into the
# device's padding) are reused.      usage: k16_witness.sh <path to the bita binary>
B=${1:-/repo/target/debug/bita}; D=$(mktemp -d); cd $D
head -c 3000000 /dev/urandom > src.bin
$B compress -i src.bin --compression none arch.cba >/dev/null 2>&1 || exit 2
cp src.bin dev.img && truncate -s 4M dev.img
L=$(losetup -f --show dev.img) || { echo "no loop device available"; exit 2; }
OUT=$($B -v clone --seed-output arch.cba $L 2>&1 | grep -E "INFO\) (Used|Fetching)")
losetup -d $L; cd /; rm -rf $D
echo "$OUT"
echo "$OUT" | grep -q "Used 0 bytes" && { echo "K16 PRESENT: nothing reused from the block device"; exit 1; }
echo "K16 absent"; exit 0
