#!/bin/bash
# K4 witness: `bita clone --verify-header <prefix>` must refuse an archive whose header checksum merely
# STARTS with the given value.  usage: k4_witness.sh <tree> <target-dir>
# exit 0 = behaves correctly (refused), exit 1 = defect reproduced (clone proceeded).
set -e
TREE=$1; TGT=$2
cd "$TREE"
CARGO_TARGET_DIR="$TGT" cargo build --offline -q 2>/dev/null
BITA="$TGT/debug/bita"
W=$(mktemp -d)
head -c 200000 /dev/urandom > "$W/src.bin"
"$BITA" compress -i "$W/src.bin" "$W/a.cba" >/dev/null 2>&1
SUM=$("$BITA" info "$W/a.cba" 2>&1 | grep -i "header checksum" | grep -oE "[0-9a-f]{128}" | head -1)
[ -n "$SUM" ] || { echo "could not read header checksum"; rm -rf "$W"; exit 2; }
PFX=${SUM:0:2}
if "$BITA" clone --verify-header "$PFX" "$W/a.cba" "$W/out.bin" >/dev/null 2>&1; then
  echo "DEFECT: clone with --verify-header $PFX (2 hex digits of $SUM) proceeded"; rm -rf "$W"; exit 1
fi
"$BITA" clone --verify-header "$SUM" "$W/a.cba" "$W/out2.bin" >/dev/null 2>&1 || { echo "full checksum refused?!"; rm -rf "$W"; exit 2; }
cmp -s "$W/src.bin" "$W/out2.bin" || { echo "clone differs"; rm -rf "$W"; exit 2; }
echo "ok: prefix pin refused, full pin accepted"; rm -rf "$W"; exit 0
