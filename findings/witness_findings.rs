// Witnesses for the genuine defects found by the contract checks (see /verif/known_findings.json).
// Copy to bitar/tests/ of a tree and run:  cargo test --offline -p bitar --features compress --test witness_findings
// Each test FAILS (panics / wrong value) on the tree before the corresponding "fix:" commit and passes after it.
use bitar::chunker::{Config, FilterBits, FilterConfig};
use bitar::{archive_reader::IoReader, chunk_dictionary as dict, Archive};
use futures_util::StreamExt;

fn archive_bytes(params: dict::ChunkerParameters, descriptors: Vec<dict::ChunkDescriptor>, rebuild_order: Vec<u32>) -> Vec<u8> {
    let d = dict::ChunkDictionary {
        application_version: "witness".to_string(),
        source_checksum: vec![0; 64],
        source_total_size: descriptors.iter().map(|c| c.source_size as u64).sum(),
        chunker_params: Some(params),
        chunk_compression: Some(dict::ChunkCompression { compression: 0, compression_level: 0 }),
        rebuild_order,
        chunk_descriptors: descriptors,
        metadata: Default::default(),
    };
    bitar::header::build(&d, None).unwrap()
}

fn params(algo: i32, bits: u32, min: u32, max: u32, window: u32) -> dict::ChunkerParameters {
    dict::ChunkerParameters { chunk_filter_bits: bits, min_chunk_size: min, max_chunk_size: max,
        rolling_hash_window_size: window, chunk_hash_length: 64, chunking_algorithm: algo }
}

async fn opens(bytes: Vec<u8>) -> bool {
    Archive::try_init(IoReader::new(std::io::Cursor::new(bytes))).await.is_ok()
}

// K2: a header-valid archive with chunker parameters no chunker can work with must be rejected when
// opened (before: accepted, and using the archive's chunker on seed data panics or never terminates).
#[tokio::test]
async fn k2_invalid_chunker_params_rejected() {
    // (algorithm, bits, min, max, window)
    let bad = [
        (1, 10, 16, 1024, 0),   // RollSum window 0: index out of range on first input
        (0, 10, 16, 1024, 0),   // BuzHash window 0
        (1, 10, 0, 0, 16),      // max 0: endless empty chunks
        (1, 0, 16, 1024, 16),   // filter bits 0: shift by 32
        (1, 33, 16, 1024, 16),  // filter bits 33: 32 - 33 underflows
        (1, 10, 2048, 1024, 16),// min > max
        (0, 10, 0, 8, 16),      // BuzHash window > max: slice start > end
        (2, 0, 0, 0, 0),        // fixed size 0: endless empty chunks
    ];
    for (a, b, mi, ma, w) in bad {
        assert!(!opens(archive_bytes(params(a, b, mi, ma, w), vec![], vec![])).await,
            "accepted invalid chunker parameters algo={a} bits={b} min={mi} max={ma} window={w}");
    }
    // sanity: valid ones are still accepted
    assert!(opens(archive_bytes(params(1, 15, 16384, 16777216, 64), vec![], vec![])).await);
    assert!(opens(archive_bytes(params(0, 15, 16384, 16777216, 64), vec![], vec![])).await);
    assert!(opens(archive_bytes(params(2, 0, 0, 64, 0), vec![], vec![])).await);
}

// K5: rebuild_order entries must refer to existing chunk descriptors (before: accepted, and
// iter_source_chunks / build_source_index index out of range).
#[tokio::test]
async fn k5_rebuild_order_out_of_range_rejected() {
    let desc = dict::ChunkDescriptor { checksum: vec![1; 64], archive_size: 4, archive_offset: 0, source_size: 4 };
    let bytes = archive_bytes(params(1, 15, 16384, 16777216, 64), vec![desc.clone()], vec![0, 7]);
    match Archive::try_init(IoReader::new(std::io::Cursor::new(bytes))).await {
        Err(_) => {}
        Ok(archive) => {
            // must at least not panic
            let n = archive.iter_source_chunks().count();
            panic!("archive with rebuild_order [0, 7] and one descriptor accepted ({n} chunks)");
        }
    }
    let ok = archive_bytes(params(1, 15, 16384, 16777216, 64), vec![desc], vec![0, 0]);
    assert!(opens(ok).await);
}

async fn chunk_all(cfg: Config, data: Vec<u8>) -> Vec<(u64, usize)> {
    let mut s = cfg.new_chunker(&data[..]);
    let mut out = vec![];
    while let Some(r) = s.next().await {
        let (o, c) = r.unwrap();
        out.push((o, c.len()));
    }
    out
}

// K3: RollSum::new overflows u32 (debug profile) for window >= 11772.
#[tokio::test]
async fn k3_rollsum_large_window_does_not_panic() {
    let cfg = Config::RollSum(FilterConfig {
        filter_bits: FilterBits::from_bits(10),
        min_chunk_size: 16,
        max_chunk_size: 1 << 20,
        window_size: 11772,
    });
    let data = vec![7u8; 50_000];
    let chunks = chunk_all(cfg, data).await;
    assert_eq!(chunks.iter().map(|c| c.1).sum::<usize>(), 50_000);
}

// K1: BuzHash sum must be a function of the trailing window only (C09/C10).
// Streams S and [9] ++ S carry the same data S; once both place a boundary at the same position
// of S at least one window past its start, all later boundaries must agree (C10).
#[tokio::test]
async fn k1_buzhash_resync_after_zero_run() {
    let mk = || Config::BuzHash(FilterConfig {
        filter_bits: FilterBits::from_bits(2),
        min_chunk_size: 0,
        max_chunk_size: 64,
        window_size: 2,
    });
    let mut bad = 0;
    for a in 1u8..=40 {
        for b in 1u8..=255 {
            let mut s = vec![a, b];
            s.extend(std::iter::repeat(0u8).take(12));
            for i in 0..20u32 { s.push((i.wrapping_mul(37) % 251) as u8 + 1); }
            let mut s2 = vec![9u8]; s2.extend(&s);
            let c1 = chunk_all(mk(), s.clone()).await;
            let c2 = chunk_all(mk(), s2).await;
            // boundary positions in S coordinates
            let b1: Vec<i64> = c1.iter().map(|c| (c.0 + c.1 as u64) as i64).collect();
            let b2: Vec<i64> = c2.iter().map(|c| (c.0 + c.1 as u64) as i64 - 1).collect();
            if let Some(p) = b1.iter().find(|p| **p >= 2 && b2.contains(p)) {
                let r1: Vec<&i64> = b1.iter().filter(|q| *q > p).collect();
                let r2: Vec<&i64> = b2.iter().filter(|q| *q > p).collect();
                if r1 != r2 {
                    if bad == 0 { eprintln!("a={a} b={b} common boundary {p}: {:?} vs {:?}", b1, b2); }
                    bad += 1;
                }
            }
        }
    }
    assert_eq!(bad, 0, "boundaries after a common boundary differ (stale BuzHash window)");
}


fn raw_header(dict_size: u64) -> Vec<u8> {
    let mut v = b"BITA1\0".to_vec();
    v.extend(dict_size.to_le_bytes());
    v.extend(vec![0u8; 200]);
    v
}

// K7: a declared dictionary size close to u64::MAX makes `dictionary_size + 8 + 64` overflow in try_init
// (panic with overflow checks). Must be an error.
#[tokio::test]
async fn k7_dictionary_size_overflow() {
    assert!(Archive::try_init(IoReader::new(std::io::Cursor::new(raw_header(u64::MAX - 10)))).await.is_err());
}

// K8: IoReader::read_at pre-allocates whatever size it is asked for, and try_init asks for the untrusted
// dictionary size: 2^63 panics with "capacity overflow", 2^46 aborts the process on allocation failure
// (run these one at a time before the fix: the second takes the whole test process down).
#[tokio::test]
async fn k8_dictionary_size_capacity_overflow() {
    assert!(Archive::try_init(IoReader::new(std::io::Cursor::new(raw_header(1u64 << 63)))).await.is_err());
}
#[tokio::test]
async fn k8_dictionary_size_huge_allocation() {
    assert!(Archive::try_init(IoReader::new(std::io::Cursor::new(raw_header(1u64 << 46)))).await.is_err());
}
// the repaired read_at still returns exactly the requested bytes for reads above the pre-allocation limit
#[tokio::test]
async fn k8_read_at_large_exact() {
    use bitar::archive_reader::ArchiveReader;
    let data: Vec<u8> = (0..5_000_000u32).map(|i| (i % 251) as u8).collect();
    let mut r = IoReader::new(std::io::Cursor::new(data.clone()));
    let got = r.read_at(7, 3_000_001).await.unwrap();
    assert_eq!(got.len(), 3_000_001);
    assert_eq!(&got[..], &data[7..7 + 3_000_001]);
}


// K11: a zero-size range after a non-empty one must yield an empty chunk, not the previous chunk's bytes
#[tokio::test]
async fn k11_zero_size_range_yields_empty_chunk() {
    use bitar::archive_reader::ArchiveReader;
    let data: Vec<u8> = (0..50u8).collect();
    let mut r = IoReader::new(std::io::Cursor::new(data));
    let got: Vec<usize> = r
        .read_chunks(vec![bitar::ChunkOffset::new(0, 4), bitar::ChunkOffset::new(10, 0), bitar::ChunkOffset::new(20, 3)])
        .map(|c| c.unwrap().len())
        .collect()
        .await;
    assert_eq!(got, vec![4, 0, 3]);
}

// ---- HTTP reader witnesses (K6, K12, K13): a raw HTTP/1.1 server that answers every Range request with the
// requested bytes of `data` followed by `extra` bytes the client did not ask for.
async fn overlong_server(data: Vec<u8>, extra: usize) -> u16 {
    use tokio::io::{AsyncReadExt, AsyncWriteExt};
    let listener = tokio::net::TcpListener::bind("127.0.0.1:0").await.unwrap();
    let port = listener.local_addr().unwrap().port();
    tokio::spawn(async move {
        loop {
            let (mut sock, _) = match listener.accept().await { Ok(x) => x, Err(_) => return };
            let mut head = vec![];
            let mut b = [0u8; 1];
            while !head.ends_with(b"\r\n\r\n") { match sock.read(&mut b).await { Ok(1) => head.push(b[0]), _ => break } }
            let text = String::from_utf8_lossy(&head).to_lowercase();
            let range = text.lines().find(|l| l.starts_with("range:")).map(|l| l.trim_start_matches("range:").trim().to_string()).unwrap_or_default();
            let v: Vec<u64> = range.trim_start_matches("bytes=").split('-').filter_map(|s| s.trim().parse().ok()).collect();
            let (start, end) = if v.len() == 2 && v[0] <= v[1] { ((v[0] as usize).min(data.len()), (v[1] as usize + 1).min(data.len())) } else { (0, 0) };
            let mut body = data[start..end.max(start)].to_vec();
            body.extend(std::iter::repeat(0xEE).take(extra));
            let _ = sock.write_all(format!("HTTP/1.1 206 Partial Content\r\nContent-Length: {}\r\nConnection: close\r\n\r\n", body.len()).as_bytes()).await;
            let _ = sock.write_all(&body).await;
            let _ = sock.shutdown().await;
        }
    });
    port
}

fn http_reader(port: u16) -> bitar::archive_reader::HttpReader {
    bitar::archive_reader::HttpReader::from_url(reqwest::Url::parse(&format!("http://127.0.0.1:{}/a", port)).unwrap())
}

// K6: a zero-size range reaches the deliver branch of ChunkReader::poll_read with no live request:
// `self.num_adjacent_reads -= 1` underflows (panic with overflow checks).
#[tokio::test]
async fn k6_http_zero_size_chunk_does_not_panic() {
    use bitar::archive_reader::ArchiveReader;
    let port = overlong_server((0..50u8).collect(), 0).await;
    let mut r = http_reader(port);
    let got: Vec<Result<usize, String>> = r
        .read_chunks(vec![bitar::ChunkOffset::new(5, 0), bitar::ChunkOffset::new(20, 3)])
        .map(|c| c.map(|b| b.len()).map_err(|e| e.to_string()))
        .collect()
        .await;
    assert!(got.iter().any(|g| g.is_err()) || got == vec![Ok(0), Ok(3)], "{:?}", got);
}

// K12: a response body longer than the requested range makes `self.size -= item.len()` underflow in
// HttpRangeRequest::poll_read_fail (panic with overflow checks); without overflow checks the surplus bytes stay
// in the chunk buffer and are delivered as the next chunk.
#[tokio::test]
async fn k12_http_overlong_body_does_not_panic() {
    use bitar::archive_reader::ArchiveReader;
    let data: Vec<u8> = (0..50u8).collect();
    let port = overlong_server(data.clone(), 3).await;
    let mut r = http_reader(port);
    let got: Vec<Result<Vec<u8>, String>> = r
        .read_chunks(vec![bitar::ChunkOffset::new(0, 4), bitar::ChunkOffset::new(10, 3)])
        .map(|c| c.map(|b| b.to_vec()).map_err(|e| e.to_string()))
        .collect()
        .await;
    assert!(got.iter().any(|g| g.is_err()) || got == vec![Ok(data[0..4].to_vec()), Ok(data[10..13].to_vec())], "{:?}", got);
}

// K13: a zero-size request at offset 0 makes `offset + size - 1` underflow when the Range header is built
// (read_at via single_fail, read_chunks via poll_read_fail).
#[tokio::test]
async fn k13_http_zero_size_at_offset_zero_does_not_panic() {
    use bitar::archive_reader::ArchiveReader;
    let port = overlong_server((0..50u8).collect(), 0).await;
    let mut r = http_reader(port);
    let got = r.read_at(0, 0).await;
    assert!(got.is_err() || got.unwrap().is_empty());
    let got: Vec<Result<usize, String>> = r
        .read_chunks(vec![bitar::ChunkOffset::new(0, 0)])
        .map(|c| c.map(|b| b.len()).map_err(|e| e.to_string()))
        .collect()
        .await;
    assert!(got.iter().any(|g| g.is_err()) || got == vec![Ok(0)], "{:?}", got);
}

// K15: strip_chunks_already_in_place computes "offsets in place" as (offsets of the chunk in the prior output) -
// (offsets still wanted): with a chunk that the target wants at more places than the prior output holds it, none of
// them in place, the subtraction underflows (panic in the debug profile) - an in-place clone of such a layout dies.
#[test]
fn k15_strip_in_place_statistics_underflow() {
    use bitar::{ChunkIndex, HashSum};
    let h = HashSum::from(&[7u8; 16][..]);
    // prior output: the chunk once, at offset 50
    let mut output_index = ChunkIndex::new_empty(16);
    output_index.add_chunk(h.clone(), 10, &[50]);
    // target: the same chunk at offsets 0, 10 and 20
    let mut target = ChunkIndex::new_empty(16);
    target.add_chunk(h.clone(), 10, &[0, 10, 20]);
    let (n, bytes) = output_index.strip_chunks_already_in_place(&mut target);
    assert_eq!((n, bytes), (0, 0), "no offset is in place");
    assert_eq!(target.offsets(&h).unwrap().collect::<Vec<u64>>(), vec![0, 10, 20]);
    // and the count is the number of target offsets found in place, not a difference of unrelated lengths
    let mut output_index = ChunkIndex::new_empty(16);
    output_index.add_chunk(h.clone(), 10, &[0, 50, 70]);
    let mut target = ChunkIndex::new_empty(16);
    target.add_chunk(h.clone(), 10, &[0, 10]);
    let (n, bytes) = output_index.strip_chunks_already_in_place(&mut target);
    assert_eq!((n, bytes), (1, 10), "exactly one offset (0) is in place");
    assert_eq!(target.offsets(&h).unwrap().collect::<Vec<u64>>(), vec![10]);
}
