// Witnesses for the genuine defects found by the contract checks (see /verif/known_findings.json).
// Copy to bitar/tests/ of a tree and run:  cargo test --offline -p bitar --features compress --test witness_findings
// Each test FAILS (panics / wrong value) on the tree before the corresponding "fix:" commit and passes after it.
use bitar::chunker::{Config, FilterBits, FilterConfig};
use futures_util::StreamExt;

async fn chunk_all(cfg: Config, data: Vec<u8>) -> Vec<(u64, usize)> {
    let mut s = cfg.new_chunker(&data[..]);
    let mut out = vec![];
    while let Some(r) = s.next().await {
        let (o, c) = r.unwrap();
        out.push((o, c.len()));
    }
    out
}

// K3: RollSum::new overflows u32 (debug profile) for window >= 11772.
#[tokio::test]
async fn k3_rollsum_large_window_does_not_panic() {
    let cfg = Config::RollSum(FilterConfig {
        filter_bits: FilterBits::from_bits(10),
        min_chunk_size: 16,
        max_chunk_size: 1 << 20,
        window_size: 11772,
    });
    let data = vec![7u8; 50_000];
    let chunks = chunk_all(cfg, data).await;
    assert_eq!(chunks.iter().map(|c| c.1).sum::<usize>(), 50_000);
}

// K1: BuzHash sum must be a function of the trailing window only (C09/C10).
// Streams S and [9] ++ S carry the same data S; once both place a boundary at the same position
// of S at least one window past its start, all later boundaries must agree (C10).
#[tokio::test]
async fn k1_buzhash_resync_after_zero_run() {
    let mk = || Config::BuzHash(FilterConfig {
        filter_bits: FilterBits::from_bits(2),
        min_chunk_size: 0,
        max_chunk_size: 64,
        window_size: 2,
    });
    let mut bad = 0;
    for a in 1u8..=40 {
        for b in 1u8..=255 {
            let mut s = vec![a, b];
            s.extend(std::iter::repeat(0u8).take(12));
            for i in 0..20u32 { s.push((i.wrapping_mul(37) % 251) as u8 + 1); }
            let mut s2 = vec![9u8]; s2.extend(&s);
            let c1 = chunk_all(mk(), s.clone()).await;
            let c2 = chunk_all(mk(), s2).await;
            // boundary positions in S coordinates
            let b1: Vec<i64> = c1.iter().map(|c| (c.0 + c.1 as u64) as i64).collect();
            let b2: Vec<i64> = c2.iter().map(|c| (c.0 + c.1 as u64) as i64 - 1).collect();
            if let Some(p) = b1.iter().find(|p| **p >= 2 && b2.contains(p)) {
                let r1: Vec<&i64> = b1.iter().filter(|q| *q > p).collect();
                let r2: Vec<&i64> = b2.iter().filter(|q| *q > p).collect();
                if r1 != r2 {
                    if bad == 0 { eprintln!("a={a} b={b} common boundary {p}: {:?} vs {:?}", b1, b2); }
                    bad += 1;
                }
            }
        }
    }
    assert_eq!(bad, 0, "boundaries after a common boundary differ (stale BuzHash window)");
}
