// Bounded native companion for C08 (NOT a proof; listed under "bounded"): the two archive readers driven through
// their public API against scripted environments.
//   c08_local_reader   IoReader over an AsyncRead+AsyncSeek that returns short reads and Pending per script:
//                      read_chunks / read_at yield exactly the requested ranges' bytes, in order; past EOF => error
//   c08_http_reader    HttpReader against a raw local HTTP/1.1 server that fragments bodies and cuts connections after
//                      scripted byte counts: chunks are exact; every retry resumes at the first byte not yet received;
//                      exhausted retries / early body end => error, never a short, shifted or duplicated chunk
//   c08_http_edge_ranges      zero-size ranges and servers that append bytes nobody asked for (findings K6, K12, K13, fixed):
//                             read_chunks / read_at still yield exactly the requested ranges
//   c15_http_bounded_retries  a server that fails every transfer: read_at / read_chunks give up with an error after
//                             exactly retries+1 requests (never retry without bound)
// Zero-size ranges are included for both readers (findings K11, K6, K13, fixed).
#![cfg(feature = "compress")]
use std::io::SeekFrom;
use std::pin::Pin;
use std::sync::{Arc, Mutex};
use std::task::{Context, Poll};
use std::time::Duration;

use bitar::archive_reader::{ArchiveReader, HttpReader, IoReader};
use bitar::ChunkOffset;
use futures_util::StreamExt;
use tokio::io::{AsyncRead, AsyncReadExt, AsyncSeek, AsyncWriteExt, ReadBuf};
use tokio::net::TcpListener;

fn witness(what: &str, detail: String) -> ! {
    println!("WITNESS {{\"kind\":\"C08\",\"what\":\"{}\",\"detail\":{:?}}}", what, detail);
    panic!("C08: {}", what);
}
struct Rng(u64);
impl Rng {
    fn next(&mut self) -> u64 { self.0 ^= self.0 << 13; self.0 ^= self.0 >> 7; self.0 ^= self.0 << 17; self.0 }
    fn below(&mut self, n: u64) -> u64 { self.next() % n }
}
fn data(n: usize) -> Vec<u8> { (0..n).map(|i| ((i * 7 + i / 251) % 253) as u8).collect() }

// ---------------------------------------------------------------- scripted local file
struct ScriptedFile { data: Vec<u8>, pos: u64, script: Vec<u8>, step: usize, seek_target: Option<u64> }
impl ScriptedFile {
    fn next_op(&mut self) -> u8 { let v = if self.script.is_empty() { 9 } else { self.script[self.step % self.script.len()] }; self.step += 1; v }
}
impl AsyncRead for ScriptedFile {
    fn poll_read(mut self: Pin<&mut Self>, cx: &mut Context<'_>, buf: &mut ReadBuf<'_>) -> Poll<std::io::Result<()>> {
        let op = self.next_op();
        if op == 0 { cx.waker().wake_by_ref(); return Poll::Pending; }
        let left = self.data.len().saturating_sub(self.pos as usize);
        let k = (op as usize).min(left).min(buf.remaining());
        let p = self.pos as usize;
        buf.put_slice(&self.data[p..p + k]);
        self.pos += k as u64;
        Poll::Ready(Ok(()))
    }
}
impl AsyncSeek for ScriptedFile {
    fn start_seek(mut self: Pin<&mut Self>, position: SeekFrom) -> std::io::Result<()> {
        match position { SeekFrom::Start(p) => { self.seek_target = Some(p); Ok(()) } _ => Err(std::io::ErrorKind::Unsupported.into()) }
    }
    fn poll_complete(mut self: Pin<&mut Self>, cx: &mut Context<'_>) -> Poll<std::io::Result<u64>> {
        if self.next_op() == 0 { cx.waker().wake_by_ref(); return Poll::Pending; }
        if let Some(t) = self.seek_target.take() { self.pos = t; }
        Poll::Ready(Ok(self.pos))
    }
}

fn range_lists(n: usize) -> Vec<Vec<(u64, usize)>> {
    let n = n as u64;
    vec![
        vec![(0, 5)],
        vec![(0, 5), (5, 7), (12, 1)],                     // adjacent
        vec![(3, 4), (20, 6), (40, 2)],                    // gapped
        vec![(40, 5), (3, 9), (20, 1), (21, 4)],           // unordered
        vec![(10, 8), (10, 8), (12, 3)],                   // duplicates / overlapping
        vec![(n - 6, 6), (0, 1)],                          // up to the last byte
        vec![(0, 70), (70, 30)],                           // larger than typical read sizes
        vec![(0, 4), (10, 0), (20, 3), (23, 0)],           // zero-size ranges (K11)
    ]
}

#[test]
fn c08_local_reader() {
    let rt = tokio::runtime::Builder::new_current_thread().enable_all().build().unwrap();
    let d = data(120);
    let mut scripts: Vec<Vec<u8>> = vec![vec![], vec![1], vec![1, 0], vec![3, 0, 0, 2], vec![0, 7, 1, 0, 50], vec![2, 2, 0]];
    if std::env::var("VERIF_COMPANION_DEEP").is_ok() {
        // thorough tier: 60 random read scripts (short reads of 1..60 bytes, Pending = 0) from VERIF_SEED
        let seed: u64 = std::env::var("VERIF_SEED").ok().and_then(|s| s.parse().ok()).unwrap_or(1);
        let mut r = Rng(0x10ca_1000_0000_0001 ^ seed.wrapping_mul(0x9e37_79b9_7f4a_7c15));
        for _ in 0..60 { let n = 1 + r.below(7) as usize; let mut sc: Vec<u8> = (0..n).map(|_| if r.below(3) == 0 { 0 } else { 1 + r.below(60) as u8 }).collect(); sc.push(1 + r.below(60) as u8); scripts.push(sc); }   // (a script of Pending only would never make progress)
    }
    let mut cases = 0;
    for ranges in range_lists(d.len()) {
        for script in &scripts {
            let chunks: Vec<ChunkOffset> = ranges.iter().map(|&(o, s)| ChunkOffset::new(o, s)).collect();
            let (d2, script2) = (d.clone(), script.clone());
            let got: Vec<Result<Vec<u8>, String>> = rt.block_on(async move {
                let mut r = IoReader::new(ScriptedFile { data: d2, pos: 0, script: script2, step: 0, seek_target: None });
                let mut s = r.read_chunks(chunks);
                let mut out = vec![];
                while let Some(x) = s.next().await { out.push(x.map(|b| b.to_vec()).map_err(|e| e.to_string())); if out.len() > 20 { break; } }
                out
            });
            let want: Vec<Vec<u8>> = ranges.iter().map(|&(o, s)| d[o as usize..o as usize + s].to_vec()).collect();
            let ok = got.len() == want.len() && got.iter().zip(&want).all(|(g, w)| g.as_ref().ok() == Some(w));
            if !ok { witness("local reader does not yield exactly the requested ranges in order", format!("ranges {:?} read script {:?} got {:?}", ranges, script, got.iter().map(|g| g.as_ref().map(|v| v.len())).collect::<Vec<_>>())); }
            // read_at
            for &(o, sz) in &ranges {
                let (d2, script2) = (d.clone(), script.clone());
                let r = rt.block_on(async move { IoReader::new(ScriptedFile { data: d2, pos: 0, script: script2, step: 0, seek_target: None }).read_at(o, sz).await.map(|b| b.to_vec()).map_err(|e| e.to_string()) });
                if r.as_ref().ok() != Some(&d[o as usize..o as usize + sz].to_vec()) { witness("IoReader::read_at does not return exactly the requested bytes", format!("offset {} size {} script {:?} got {:?}", o, sz, script, r.map(|v| v.len()))); }
            }
            cases += 1;
        }
        // reads larger than any pre-allocation, not ending at the end of the file (a buffer that grows may receive more)
        if cases % 6 == 0 {
            let big: Vec<u8> = (0..(3usize << 20)).map(|i| (i % 251) as u8 ^ (i >> 12) as u8).collect();
            for (o, sz) in [(100u64, (1usize << 20) + 1), (0, (1 << 20) + 4096), (7, 2_000_000)] {
                let b2 = big.clone();
                let r = rt.block_on(async move { IoReader::new(std::io::Cursor::new(b2)).read_at(o, sz).await.map(|b| b.to_vec()).map_err(|e| e.to_string()) });
                if r.as_ref().ok().map(|v| &v[..]) != Some(&big[o as usize..o as usize + sz]) { witness("IoReader::read_at does not return exactly the requested bytes", format!("3 MiB file, offset {} size {}: got {:?}", o, sz, r.map(|v| v.len()))); }
            }
        }
        // a range reaching past the end of the file must be an error, never short data
        let chunks = vec![ChunkOffset::new(d.len() as u64 - 4, 10)];
        let d2 = d.clone();
        let got = rt.block_on(async move {
            let mut r = IoReader::new(ScriptedFile { data: d2, pos: 0, script: vec![3, 0], step: 0, seek_target: None });
            let mut s = r.read_chunks(chunks);
            tokio::time::timeout(Duration::from_secs(20), s.next()).await.map(|o| o.map(|x| x.map(|b| b.len()).map_err(|e| e.to_string())))
        });
        match got { Ok(Some(Err(_))) => {}, other => witness("a range reaching past the end of the file is not reported as an error", format!("{:?}", other)) }
    }
    println!("COMPANION-OK cases={}", cases);
}

// ---------------------------------------------------------------- scripted HTTP server
#[derive(Clone, Debug)]
struct ServerScript { cut_after: Vec<usize>, piece: usize }   // per request k: send only cut_after[k] body bytes then close; bodies written in `piece`-byte writes
type Log = Arc<Mutex<Vec<(u64, u64)>>>;

async fn serve(listener: TcpListener, data: Arc<Vec<u8>>, script: ServerScript, log: Log) {
    let mut k = 0usize;
    loop {
        let (mut sock, _) = match listener.accept().await { Ok(x) => x, Err(_) => return };
        // read the request head
        let mut head = vec![];
        let mut b = [0u8; 1];
        while !head.ends_with(b"\r\n\r\n") { match sock.read(&mut b).await { Ok(1) => head.push(b[0]), _ => break } }
        let text = String::from_utf8_lossy(&head).to_lowercase();
        let range = text.lines().find(|l| l.starts_with("range:")).map(|l| l.trim_start_matches("range:").trim().to_string()).unwrap_or_default();
        let v: Vec<u64> = range.trim_start_matches("bytes=").split('-').filter_map(|s| s.trim().parse().ok()).collect();
        if v.len() != 2 { let _ = sock.shutdown().await; continue; }
        log.lock().unwrap().push((v[0], v[1]));
        let start = (v[0] as usize).min(data.len());
        let end = (v[1] as usize + 1).min(data.len()).max(start);
        let body = &data[start..end];
        let send = script.cut_after.get(k).copied().unwrap_or(usize::MAX).min(body.len());
        k += 1;
        let _ = sock.write_all(format!("HTTP/1.1 206 Partial Content\r\nContent-Length: {}\r\nConnection: close\r\n\r\n", body.len()).as_bytes()).await;
        for piece in body[..send].chunks(script.piece.max(1)) { let _ = sock.write_all(piece).await; let _ = sock.flush().await; tokio::time::sleep(Duration::from_millis(1)).await; }
        let _ = sock.shutdown().await;   // early close after `send` bytes = transfer failure mid-body when send < body.len()
    }
}

#[test]
fn c08_http_reader() {
    let rt = tokio::runtime::Builder::new_multi_thread().worker_threads(2).enable_all().build().unwrap();
    let d = Arc::new(data(400));
    let mut rng = Rng(0x0808_0808_4242_1111);
    let mut cases = 0;
    // runs: one request of 3 adjacent chunks [10,40) and one single chunk [100,130)
    let ranges: Vec<(u64, usize)> = vec![(10, 12), (22, 10), (32, 8), (100, 30)];
    let want: Vec<Vec<u8>> = ranges.iter().map(|&(o, s)| d[o as usize..o as usize + s].to_vec()).collect();
    let mut scripts: Vec<(ServerScript, u32)> = vec![];
    for piece in [1000usize, 1, 7] {
        scripts.push((ServerScript { cut_after: vec![], piece }, 0));                                  // no failures
        for cut in [0usize, 1, 11, 12, 13, 29] {                                                       // first attempt cut after `cut` bytes
            for retries in [0u32, 1, 3] { scripts.push((ServerScript { cut_after: vec![cut], piece }, retries)); }
        }
        scripts.push((ServerScript { cut_after: vec![5, 4, 3], piece }, 3));                          // repeated cuts, enough budget
        scripts.push((ServerScript { cut_after: vec![5, 4, 3], piece }, 2));                          // repeated cuts, budget exhausted
        scripts.push((ServerScript { cut_after: vec![30, 0, 7], piece }, 3));                         // cut exactly at the end of the first run is no failure
    }
    let deep = std::env::var("VERIF_COMPANION_DEEP").is_ok();
    let seed: u64 = std::env::var("VERIF_SEED").ok().and_then(|s| s.parse().ok()).unwrap_or(1);
    if deep { rng = Rng(0x0808_0808_4242_1111 ^ seed.wrapping_mul(0x9e37_79b9_7f4a_7c15)); }
    for _ in 0..(if deep { 400 } else { 10 }) { scripts.push((ServerScript { cut_after: (0..rng.below(4)).map(|_| rng.below(31) as usize).collect(), piece: 1 + rng.below(9) as usize }, rng.below(4) as u32)); }
    for (script, retries) in scripts {
        let (d2, sc, ranges2) = (d.clone(), script.clone(), ranges.clone());
        let (got, log) = rt.block_on(async move {
            let log: Log = Arc::new(Mutex::new(vec![]));
            let listener = TcpListener::bind("127.0.0.1:0").await.unwrap();
            let port = listener.local_addr().unwrap().port();
            let server = tokio::spawn(serve(listener, d2, sc, log.clone()));
            let url = reqwest::Url::parse(&format!("http://127.0.0.1:{}/a", port)).unwrap();
            let mut reader = HttpReader::from_url(url).retries(retries).retry_delay(Duration::from_millis(1));
            let chunks: Vec<ChunkOffset> = ranges2.iter().map(|&(o, s)| ChunkOffset::new(o, s)).collect();
            let mut out = vec![];
            {
                let mut s = reader.read_chunks(chunks);
                loop {
                    match tokio::time::timeout(Duration::from_secs(30), s.next()).await {
                        Ok(Some(x)) => { let e = x.is_err(); out.push(x.map(|b| b.to_vec()).map_err(|e| format!("{:?}", e))); if e || out.len() > 10 { break; } }
                        Ok(None) => break,
                        Err(_) => { out.push(Err("TIMEOUT".into())); break; }
                    }
                }
            }
            server.abort();
            let l = log.lock().unwrap().clone();
            (out, l)
        });
        // model: requests in order; each request wants [o, e]; a cut after c < len bytes is a failure that costs one retry and
        // the re-request starts at o + (bytes received so far); budget is per range request
        let runs: Vec<(u64, u64)> = vec![(10, 39), (100, 129)];
        let mut k = 0usize;
        let mut expect_log: Vec<(u64, u64)> = vec![];
        let mut expect_fail = false;
        'runs: for &(o, e) in &runs {
            let mut cur = o;
            let mut budget = retries;
            loop {
                expect_log.push((cur, e));
                let len = (e - cur + 1) as usize;
                let sent = script.cut_after.get(k).copied().unwrap_or(usize::MAX).min(len);
                k += 1;
                cur += sent as u64;
                if sent == len { break; }
                if budget == 0 { expect_fail = true; break 'runs; }
                budget -= 1;
            }
        }
        let timeouts = got.iter().any(|g| g.as_ref().err().map(|e| e == "TIMEOUT").unwrap_or(false));
        if timeouts { continue; }   // inconclusive under load: never an alarm
        let detail = format!("server script {:?} retries {} got {:?} range log {:?} expected log {:?}", script, retries, got.iter().map(|g| g.as_ref().map(|v| v.len())).collect::<Vec<_>>(), log, expect_log);
        // never a short, shifted or duplicated chunk: every Ok item must be exactly the next wanted chunk
        for (i, g) in got.iter().enumerate() { if let Ok(bytes) = g { if i >= want.len() || *bytes != want[i] { witness("HTTP reader delivered a chunk that is not exactly the requested range", detail.clone()); } } }
        if expect_fail {
            if !got.iter().any(|g| g.is_err()) { witness("retries exhausted / body ended early but no error was returned", detail); }
        } else {
            if got.len() != want.len() || got.iter().any(|g| g.is_err()) { witness("HTTP reader failed although the retry budget covers the scripted failures", detail); }
            if log != expect_log { witness("a retry did not resume at the first byte not yet received (Range log differs)", detail); }
        }
        cases += 1;
    }
    println!("COMPANION-OK cases={}", cases);
}

// ---------------------------------------------------------------- edge ranges / surplus bytes / endless failures
/// answers every Range request with the requested bytes followed by `extra` surplus bytes; `fail_all`: announce the
/// body but close the connection before sending any of it
async fn serve_simple(listener: TcpListener, data: Arc<Vec<u8>>, extra: usize, fail_all: bool, piece: usize, log: Log) {
    loop {
        let (mut sock, _) = match listener.accept().await { Ok(x) => x, Err(_) => return };
        let mut head = vec![];
        let mut b = [0u8; 1];
        while !head.ends_with(b"\r\n\r\n") { match sock.read(&mut b).await { Ok(1) => head.push(b[0]), _ => break } }
        let text = String::from_utf8_lossy(&head).to_lowercase();
        let range = text.lines().find(|l| l.starts_with("range:")).map(|l| l.trim_start_matches("range:").trim().to_string()).unwrap_or_default();
        let v: Vec<u64> = range.trim_start_matches("bytes=").split('-').filter_map(|s| s.trim().parse().ok()).collect();
        if v.len() != 2 { let _ = sock.shutdown().await; continue; }
        log.lock().unwrap().push((v[0], v[1]));
        let (start, end) = if v[0] <= v[1] { ((v[0] as usize).min(data.len()), (v[1] as usize + 1).min(data.len())) } else { (0, 0) };
        let mut body = data[start..end.max(start)].to_vec();
        body.extend(std::iter::repeat(0xEEu8).take(extra));
        let _ = sock.write_all(format!("HTTP/1.1 206 Partial Content\r\nContent-Length: {}\r\nConnection: close\r\n\r\n", if fail_all { body.len().max(1) } else { body.len() }).as_bytes()).await;
        if !fail_all { for p in body.chunks(piece.max(1)) { let _ = sock.write_all(p).await; let _ = sock.flush().await; if piece < body.len() { tokio::time::sleep(Duration::from_millis(2)).await; } } }
        let _ = sock.shutdown().await;
    }
}

#[test]
fn c08_http_edge_ranges() {
    let rt = tokio::runtime::Builder::new_multi_thread().worker_threads(2).enable_all().build().unwrap();
    let d = Arc::new(data(300));
    let mut cases = 0;
    let lists: Vec<Vec<(u64, usize)>> = vec![
        vec![(5, 0), (20, 3)], vec![(0, 0)], vec![(10, 4), (14, 0), (14, 3)], vec![(10, 4), (20, 0)], vec![(0, 0), (0, 0), (0, 2)],
        vec![(0, 4), (10, 3)], vec![(7, 5), (12, 5), (40, 1), (41, 0)], vec![(299, 1), (0, 1)],
    ];
    // (surplus bytes, body written in pieces of this size: a body arriving in several frames must still be taken whole)
    for (extra, piece) in [(0usize, usize::MAX), (1, usize::MAX), (3, usize::MAX), (5000, usize::MAX), (0, 2), (3, 1)] {
        for ranges in &lists {
            let want: Vec<Vec<u8>> = ranges.iter().map(|&(o, s)| d[o as usize..o as usize + s].to_vec()).collect();
            let (d2, ranges2) = (d.clone(), ranges.clone());
            let got = rt.block_on(async move {
                let log: Log = Arc::new(Mutex::new(vec![]));
                let listener = TcpListener::bind("127.0.0.1:0").await.unwrap();
                let port = listener.local_addr().unwrap().port();
                let server = tokio::spawn(serve_simple(listener, d2, extra, false, piece, log.clone()));
                let url = reqwest::Url::parse(&format!("http://127.0.0.1:{}/a", port)).unwrap();
                let mut reader = HttpReader::from_url(url).retries(0);
                let mut out: Vec<Result<Vec<u8>, String>> = vec![];
                {
                    let mut s = reader.read_chunks(ranges2.iter().map(|&(o, s)| ChunkOffset::new(o, s)).collect());
                    loop {
                        match tokio::time::timeout(Duration::from_secs(30), s.next()).await {
                            Ok(Some(x)) => { out.push(x.map(|b| b.to_vec()).map_err(|e| format!("{:?}", e))); if out.len() > 20 { break; } }
                            Ok(None) => break,
                            Err(_) => { out.push(Err("TIMEOUT".into())); break; }
                        }
                    }
                }
                // the same ranges one by one through read_at
                let mut single: Vec<Result<Vec<u8>, String>> = vec![];
                for &(o, s) in &ranges2 {
                    match tokio::time::timeout(Duration::from_secs(30), reader.read_at(o, s)).await {
                        Ok(x) => single.push(x.map(|b| b.to_vec()).map_err(|e| format!("{:?}", e))),
                        Err(_) => single.push(Err("TIMEOUT".into())),
                    }
                }
                server.abort();
                (out, single)
            });
            if got.0.iter().chain(got.1.iter()).any(|g| g.as_ref().err().map(|e| e == "TIMEOUT").unwrap_or(false)) { continue; }
            let expect: Vec<Result<Vec<u8>, String>> = want.iter().cloned().map(Ok).collect();
            let detail = format!("ranges {:?}, server appends {} surplus bytes to every body and writes bodies in pieces of {} bytes: read_chunks {:?} read_at {:?}", ranges, extra, piece, got.0.iter().map(|g| g.as_ref().map(|v| v.len())).collect::<Vec<_>>(), got.1.iter().map(|g| g.as_ref().map(|v| v.len())).collect::<Vec<_>>());
            if got.0 != expect { witness("HTTP read_chunks does not yield exactly the requested ranges (zero-size ranges / surplus body bytes)", detail.clone()); }
            if got.1 != expect { witness("HTTP read_at does not yield exactly the requested range (zero-size ranges / surplus body bytes)", detail); }
            cases += 1;
        }
    }
    println!("COMPANION-OK cases={}", cases);
}

/// read_at (header and dictionary fetches) honours the configured retry budget too: a first attempt cut mid-body or
/// closed before any body byte, with retries(1), must end in success with exactly the requested bytes
#[test]
fn c08_http_read_at_retries() {
    let rt = tokio::runtime::Builder::new_multi_thread().worker_threads(2).enable_all().build().unwrap();
    let d = Arc::new(data(200));
    let mut cases = 0;
    for cut in [0usize, 1, 7, 19] {
        for (retries, expect_ok) in [(1u32, true), (3, true), (0, false)] {
            let d2 = d.clone();
            let (res, nreq) = rt.block_on(async move {
                let log: Log = Arc::new(Mutex::new(vec![]));
                let listener = TcpListener::bind("127.0.0.1:0").await.unwrap();
                let port = listener.local_addr().unwrap().port();
                let server = tokio::spawn(serve(listener, d2, ServerScript { cut_after: vec![cut], piece: 1000 }, log.clone()));
                let url = reqwest::Url::parse(&format!("http://127.0.0.1:{}/a", port)).unwrap();
                let mut reader = HttpReader::from_url(url).retries(retries).retry_delay(Duration::from_millis(1));
                let r = tokio::time::timeout(Duration::from_secs(30), reader.read_at(30, 20)).await.map(|x| x.map(|b| b.to_vec()).map_err(|e| format!("{:?}", e)));
                server.abort();
                let n = log.lock().unwrap().len();
                (r, n)
            });
            let res = match res { Ok(r) => r, Err(_) => continue };     // timeout: inconclusive under load
            let detail = format!("read_at(30, 20), first attempt cut after {} body bytes, retries {}: {:?}, {} requests", cut, retries, res.as_ref().map(|v| v.len()), nreq);
            if expect_ok { if res.as_ref().ok() != Some(&d[30..50].to_vec()) { witness("HttpReader::read_at does not resume a failed transfer although the retry budget covers it", detail); } }
            else if res.is_ok() && res.as_ref().ok() != Some(&d[30..50].to_vec()) { witness("HttpReader::read_at returned wrong bytes", detail); }
            cases += 1;
        }
    }
    println!("COMPANION-OK cases={}", cases);
}

#[test]
fn c15_http_bounded_retries() {
    let rt = tokio::runtime::Builder::new_multi_thread().worker_threads(2).enable_all().build().unwrap();
    let d = Arc::new(data(100));
    let mut cases = 0;
    for retries in [0u32, 1, 3] {
        for use_read_at in [true, false] {
            let d2 = d.clone();
            let (res, nreq) = rt.block_on(async move {
                let log: Log = Arc::new(Mutex::new(vec![]));
                let listener = TcpListener::bind("127.0.0.1:0").await.unwrap();
                let port = listener.local_addr().unwrap().port();
                let server = tokio::spawn(serve_simple(listener, d2, 0, true, usize::MAX, log.clone()));
                let url = reqwest::Url::parse(&format!("http://127.0.0.1:{}/a", port)).unwrap();
                let mut reader = HttpReader::from_url(url).retries(retries).retry_delay(Duration::from_millis(1));
                let res: Result<Result<usize, String>, ()> = if use_read_at {
                    tokio::time::timeout(Duration::from_secs(8), reader.read_at(3, 5)).await.map(|x| x.map(|b| b.len()).map_err(|e| format!("{:?}", e))).map_err(|_| ())
                } else {
                    let mut s = reader.read_chunks(vec![ChunkOffset::new(3, 5)]);
                    tokio::time::timeout(Duration::from_secs(8), s.next()).await.map(|x| x.unwrap_or(Err(bitar::archive_reader::HttpReaderError::UnexpectedEnd)).map(|b| b.len()).map_err(|e| format!("{:?}", e))).map_err(|_| ())
                };
                server.abort();
                let n = log.lock().unwrap().len();
                (res, n)
            });
            let detail = format!("{} with retries={} against a server that fails every transfer: result {:?}, {} requests sent", if use_read_at { "read_at(3,5)" } else { "read_chunks([3..8])" }, retries, res, nreq);
            if nreq > retries as usize + 1 {
                println!("WITNESS {{\"kind\":\"C15\",\"what\":\"more requests than retries+1: failed transfers are retried without bound\",\"detail\":{:?}}}", detail);
                panic!("C15: unbounded retries");
            }
            match res {
                Ok(Err(_)) => {}
                Ok(Ok(_)) => { println!("WITNESS {{\"kind\":\"C15\",\"what\":\"a transfer that always fails is reported as success\",\"detail\":{:?}}}", detail); panic!("C15"); }
                Err(()) => { continue; }   // no result within 8 s although the request count is within budget: inconclusive under load, never an alarm
            }
            cases += 1;
        }
    }
    println!("COMPANION-OK cases={}", cases);
}
