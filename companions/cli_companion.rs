// Bounded native companion at CLI level (root package integration test; uses the real `bita` binary).
// NOT a proof, listed under "bounded".  Covers code of the bin crate that no contract can reach as a whole
// (async pipelines, option parsing, exit status):
//   c11_cli_writer     archives written by `bita compress` (several inputs/configurations) and by the library writer
//                      are judged by an independent decoder written from header.rs' table and chunk_dictionary.proto
//   c04_cli_clone      `bita clone` of corrupted archives exits non-zero or reproduces the source; --verify-header gate
// Prints `WITNESS <json>` and fails on the first disagreement.
use blake2::{Blake2b512, Digest};
use std::path::{Path, PathBuf};
use std::process::Command;

const BITA: &str = env!("CARGO_BIN_EXE_bita");

fn b2(data: &[u8]) -> Vec<u8> { let mut h = Blake2b512::new(); h.update(data); h.finalize().to_vec() }

fn witness(kind: &str, what: &str, detail: String) -> ! {
    println!("WITNESS {{\"kind\":\"{}\",\"what\":\"{}\",\"detail\":{:?}}}", kind, what, detail);
    panic!("{}: {}", kind, what);
}

struct Tmp(PathBuf);
impl Tmp {
    fn new(tag: &str) -> Tmp {
        let p = std::env::temp_dir().join(format!("bita-verif-cli-{}-{}", tag, std::process::id()));
        let _ = std::fs::remove_dir_all(&p);
        std::fs::create_dir_all(&p).unwrap();
        Tmp(p)
    }
    fn path(&self, name: &str) -> PathBuf { self.0.join(name) }
}
impl Drop for Tmp { fn drop(&mut self) { let _ = std::fs::remove_dir_all(&self.0); } }

struct Rng(u64);
impl Rng { fn next(&mut self) -> u64 { self.0 ^= self.0 << 13; self.0 ^= self.0 >> 7; self.0 ^= self.0 << 17; self.0 } }

fn block(rng: &mut Rng, len: usize, noisy: bool, tag: u8) -> Vec<u8> {
    (0..len).map(|j| if noisy { (rng.next() >> 11) as u8 } else { tag ^ ((j / 97) as u8) }).collect()
}

// ---------------------------------------------------------------- independent decoder
#[derive(Default, Debug, Clone)]
struct Desc { checksum: Vec<u8>, archive_size: u64, archive_offset: u64, source_size: u64 }
#[derive(Default, Debug)]
struct Dict {
    source_checksum: Vec<u8>, source_total_size: u64,
    params: Option<[u64; 6]>,          // bits, min, max, window, hash_length, algorithm
    compression: Option<(u64, u64)>,   // type, level
    rebuild_order: Vec<u64>, descriptors: Vec<Desc>, metadata: Vec<(Vec<u8>, Vec<u8>)>,
}
fn varint(b: &[u8], i: &mut usize) -> u64 { let mut v = 0u64; let mut s = 0; loop { let x = b[*i]; *i += 1; v |= ((x & 0x7f) as u64) << s; if x & 0x80 == 0 { return v; } s += 7; } }
fn fields(b: &[u8]) -> Vec<(u64, u64, Vec<u8>)> {   // (field number, varint value, bytes payload)
    let mut out = vec![]; let mut i = 0;
    while i < b.len() {
        let key = varint(b, &mut i); let (f, wt) = (key >> 3, key & 7);
        match wt {
            0 => { let v = varint(b, &mut i); out.push((f, v, vec![])); }
            2 => { let n = varint(b, &mut i) as usize; out.push((f, 0, b[i..i + n].to_vec())); i += n; }
            1 => { i += 8; } 5 => { i += 4; } _ => panic!("wire type"),
        }
    }
    out
}
fn decode_dict(b: &[u8]) -> Dict {
    let mut d = Dict::default();
    for (f, v, p) in fields(b) {
        match f {
            2 => d.source_checksum = p,
            3 => d.source_total_size = v,
            4 => { let mut a = [0u64; 6]; for (ff, vv, _) in fields(&p) { if (1..=6).contains(&ff) { a[ff as usize - 1] = vv; } } d.params = Some(a); }
            5 => { let mut t = (0, 0); for (ff, vv, _) in fields(&p) { if ff == 2 { t.0 = vv; } if ff == 3 { t.1 = vv; } } d.compression = Some(t); }
            6 => { if p.is_empty() { d.rebuild_order.push(v); } else { let mut i = 0; while i < p.len() { d.rebuild_order.push(varint(&p, &mut i)); } } }
            7 => { let mut c = Desc::default(); for (ff, vv, pp) in fields(&p) { match ff { 1 => c.checksum = pp, 3 => c.archive_size = vv, 4 => c.archive_offset = vv, 5 => c.source_size = vv, _ => {} } } d.descriptors.push(c); }
            8 => { let mut kv = (vec![], vec![]); for (ff, _vv, pp) in fields(&p) { if ff == 1 { kv.0 = pp; } else if ff == 2 { kv.1 = pp; } } d.metadata.push(kv); }
            _ => {}
        }
    }
    d
}

/// judge an archive against the documented format; `expected_chunks`: the source's chunks if the chunking is known
/// independently (fixed size), `hash_len`, `compressed`: whether a compression was requested
fn judge(kind: &str, label: &str, archive: &[u8], source: &[u8], expected_chunks: Option<Vec<Vec<u8>>>, hash_len: usize, want_params: Option<[u64; 6]>, want_compression: (u64, u64)) {
    let fail = |what: &str, detail: String| -> ! { witness(kind, what, format!("{}: {}", label, detail)) };
    if archive.len() < 14 + 72 || &archive[..6] != b"BITA1\0" { fail("archive does not start with the documented magic", format!("{} bytes", archive.len())); }
    let dsz = u64::from_le_bytes(archive[6..14].try_into().unwrap()) as usize;
    if archive.len() < 14 + dsz + 72 { fail("dictionary size field exceeds the file", format!("{}", dsz)); }
    let hl = 14 + dsz + 72;
    let off = u64::from_le_bytes(archive[14 + dsz..22 + dsz].try_into().unwrap()) as usize;
    if off != hl { fail("chunk data offset differs from the header length", format!("offset {} header {}", off, hl)); }
    if archive[22 + dsz..hl] != b2(&archive[..22 + dsz])[..] { fail("header checksum is not Blake2b-512 of all preceding header bytes", String::new()); }
    let d = decode_dict(&archive[14..14 + dsz]);
    if d.source_total_size != source.len() as u64 { fail("recorded source size differs from the source length", format!("recorded {} real {}", d.source_total_size, source.len())); }
    if d.source_checksum != b2(source) { fail("recorded source checksum differs from Blake2 of the source", String::new()); }
    // descriptors: unique, back-to-back from 0, stored size <= source size
    let mut next = 0u64;
    for (i, c) in d.descriptors.iter().enumerate() {
        if c.archive_offset != next { fail("stored chunks are not back-to-back in descriptor order", format!("descriptor {} offset {} expected {}", i, c.archive_offset, next)); }
        if c.archive_size > c.source_size { fail("stored size exceeds source size", format!("descriptor {}", i)); }
        if c.checksum.len() != hash_len { fail("descriptor checksum length differs from the requested hash length", format!("{} vs {}", c.checksum.len(), hash_len)); }
        if d.descriptors[..i].iter().any(|o| o.checksum == c.checksum) { fail("descriptors are not unique by hash", format!("descriptor {}", i)); }
        next += c.archive_size;
    }
    // rebuild order: valid indexes, sizes sum to the recorded source size
    let mut sum = 0u64;
    for &r in &d.rebuild_order { if r as usize >= d.descriptors.len() { fail("rebuild index out of range", format!("{}", r)); } sum += d.descriptors[r as usize].source_size; }
    if sum != d.source_total_size { fail("chunk sizes of the rebuild order do not sum to the recorded source size", format!("sum {} recorded {}", sum, d.source_total_size)); }
    // walk the source along the rebuild order: hashes must match, first occurrences must be in descriptor order
    let mut pos = 0usize; let mut seen = 0usize;
    for &r in &d.rebuild_order {
        let c = &d.descriptors[r as usize];
        let end = pos + c.source_size as usize;
        if end > source.len() || b2(&source[pos..end])[..hash_len] != c.checksum[..] { fail("descriptor hash differs from the hash of the source bytes it stands for", format!("source offset {}", pos)); }
        if r as usize > seen { fail("descriptors are not in order of first occurrence", format!("index {} before {}", r, seen)); }
        if r as usize == seen { seen += 1; }
        pos = end;
    }
    if seen != d.descriptors.len() { fail("descriptor without any use in the rebuild order", format!("{} of {}", seen, d.descriptors.len())); }
    if let Some(exp) = expected_chunks {
        let got: Vec<u64> = d.rebuild_order.iter().map(|&r| d.descriptors[r as usize].source_size).collect();
        let want: Vec<u64> = exp.iter().map(|c| c.len() as u64).collect();
        if got != want { fail("chunk sizes differ from the requested fixed-size chunking", format!("{:?} vs {:?}", &got[..got.len().min(8)], &want[..want.len().min(8)])); }
    }
    if archive.len() as u64 > hl as u64 + next { fail("the file extends beyond the end of the last stored chunk", format!("file {} bytes, header {} + stored {}", archive.len(), hl, next)); }
    // ... and must not end before it either (finding K14: the CLI's unflushed temp file, fixed)
    if (archive.len() as u64) < hl as u64 + next { fail("the file ends before the end of the last stored chunk", format!("file {} bytes, header {} + stored {}", archive.len(), hl, next)); }
    // stored bytes of raw chunks
    if archive.len() as u64 == hl as u64 + next {
        let mut pos = 0usize; let mut done = vec![false; d.descriptors.len()];
        for &r in &d.rebuild_order {
            let c = &d.descriptors[r as usize];
            let end = pos + c.source_size as usize;
            if !done[r as usize] && c.archive_size == c.source_size {
                let a = hl + c.archive_offset as usize;
                if archive[a..a + c.archive_size as usize] != source[pos..end] { fail("a chunk stored with archive_size == source_size is not stored raw", format!("descriptor {}", r)); }
            }
            done[r as usize] = true; pos = end;
        }
    }
    if let Some(w) = want_params { if d.params != Some(w) { fail("recorded chunker parameters differ from the requested ones", format!("{:?} vs {:?}", d.params, w)); } }
    if d.compression != Some(want_compression) { fail("recorded compression differs from the requested one", format!("{:?} vs {:?}", d.compression, want_compression)); }
}

fn sources() -> Vec<(&'static str, Vec<u8>)> {
    let mut rng = Rng(0xc11c_11c1_1234_0001);
    let a = block(&mut rng, 4096, true, 1); let b = block(&mut rng, 4096, false, 2); let c = block(&mut rng, 4096, true, 3); let z = vec![0u8; 4096];
    let cat = |v: &[&Vec<u8>]| -> Vec<u8> { v.iter().flat_map(|x| x.iter().copied()).collect() };
    vec![
        ("empty", vec![]),
        ("noise_first_then_repeats", cat(&[&a, &b, &a, &z, &z, &c, &b])),
        ("compressible_then_noise_tail", { let mut v = cat(&[&b, &z, &b, &a]); v.extend(&c[..1000]); v }),
        ("all_same", cat(&[&z, &z, &z])),
    ]
}

fn compress_cli(dir: &Tmp, name: &str, src: &Path, extra: &[&str]) -> Option<Vec<u8>> {
    let out = dir.path(&format!("{}.cba", name));
    let _ = std::fs::remove_file(&out);
    let st = Command::new(BITA).arg("compress").arg("-i").arg(src).args(extra).arg(&out).output().unwrap();
    if !st.status.success() { witness("C11", "bita compress failed", format!("{} {:?}: {}", name, extra, String::from_utf8_lossy(&st.stderr))); }
    Some(std::fs::read(&out).unwrap())
}

#[test]
fn c11_cli_writer() {
    let dir = Tmp::new("c11");
    let mut cases = 0;
    for (sname, source) in sources() {
        let src = dir.path(&format!("{}.src", sname));
        std::fs::write(&src, &source).unwrap();
        let fixed: Vec<Vec<u8>> = source.chunks(4096).map(|c| c.to_vec()).collect();
        for (cname, args, hash_len, params, comp, chunks) in [
            ("fixed_none_h64", vec!["--fixed-size", "4096", "--compression", "none"], 64usize, Some([0u64, 0, 4096, 0, 64, 2]), (0u64, 0u64), Some(fixed.clone())),
            ("fixed_brotli_h12", vec!["--fixed-size", "4096", "--compression", "brotli", "--compression-level", "4", "--hash-length", "12"], 12, Some([0, 0, 4096, 0, 12, 2]), (3, 4), Some(fixed.clone())),
            ("rollsum_brotli", vec!["--hash-chunking", "RollSum", "--avg-chunk-size", "1024", "--min-chunk-size", "256", "--max-chunk-size", "4096", "--rolling-window-size", "20", "--compression", "brotli", "--compression-level", "2"], 64, Some([9, 256, 4096, 20, 64, 1]), (3, 2), None),   // avg 1024 = 2^(bits+1) => bits 9
            ("buzhash_none", vec!["--hash-chunking", "BuzHash", "--avg-chunk-size", "1024", "--min-chunk-size", "256", "--max-chunk-size", "4096", "--rolling-window-size", "20", "--compression", "none", "--hash-length", "20"], 20, Some([9, 256, 4096, 20, 20, 0]), (0, 0), None),
        ] {
            let label = format!("CLI writer, source {}, config {}", sname, cname);
            let archive = compress_cli(&dir, &format!("{}-{}", sname, cname), &src, &args).unwrap();
            judge("C11", &label, &archive, &source, chunks, hash_len, params, comp);
            cases += 1;
        }
        // library writer on the same sources
        let rt = tokio::runtime::Builder::new_multi_thread().worker_threads(2).enable_all().build().unwrap();
        for (cname, cfg, hash_len, params, compression, comp, chunks) in [
            ("lib_fixed_none_h32", bitar::chunker::Config::FixedSize(4096), 32usize, Some([0u64, 0, 4096, 0, 32, 2]), None, (0u64, 0u64), Some(fixed.clone())),
            ("lib_fixed_brotli", bitar::chunker::Config::FixedSize(4096), 64, Some([0, 0, 4096, 0, 64, 2]), Some(bitar::Compression::brotli(5).unwrap()), (3, 5), Some(fixed.clone())),
            ("lib_buzhash_brotli", bitar::chunker::Config::BuzHash(bitar::chunker::FilterConfig { filter_bits: bitar::chunker::FilterBits::from_bits(8), min_chunk_size: 256, max_chunk_size: 4096, window_size: 20 }), 64, Some([8, 256, 4096, 20, 64, 0]), Some(bitar::Compression::brotli(3).unwrap()), (3, 3), None),
            ("lib_rollsum_none", bitar::chunker::Config::RollSum(bitar::chunker::FilterConfig { filter_bits: bitar::chunker::FilterBits::from_bits(8), min_chunk_size: 256, max_chunk_size: 4096, window_size: 20 }), 64, Some([8, 256, 4096, 20, 64, 1]), None, (0, 0), None),
        ] {
            let opts = bitar::api::compress::CreateArchiveOptions { chunker_config: cfg, chunk_hash_length: hash_len, compression, num_chunk_buffers: 3, ..Default::default() };
            let mut out: Vec<u8> = vec![];
            rt.block_on(bitar::api::compress::create_archive(&source[..], &mut out, &opts)).unwrap();
            judge("C11", &format!("library writer, source {}, config {}", sname, cname), &out, &source, chunks, hash_len, params, comp);
            cases += 1;
        }
    }
    println!("COMPANION-OK cases={}", cases);
}

#[test]
fn c11_cli_metadata_and_overwrite() {
    let dir = Tmp::new("c11m");
    let mut rng = Rng(0xc11c_0000_feed_0003);
    let source = block(&mut rng, 9000, true, 9);
    let src = dir.path("m.src");
    std::fs::write(&src, &source).unwrap();
    // binary (non UTF-8) metadata value from a file, plus a string value and an empty one
    let bin: Vec<u8> = (0..264u32).map(|i| (i * 7 % 256) as u8).chain([0xff, 0xfe, 0x00, 0x80]).collect();
    let binf = dir.path("meta.bin");
    std::fs::write(&binf, &bin).unwrap();
    let out = dir.path("m.cba");
    // pre-existing, much longer output file: --force-create must not leave its tail behind
    std::fs::write(&out, vec![0x5au8; 300_000]).unwrap();
    let archive;
    {
        let st = Command::new(BITA).arg("compress").arg("-i").arg(&src).args(["--fixed-size", "4096", "--compression", "none", "--force-create",
            "--metadata-value", "greeting", "hello wörld", "--metadata-value", "empty", ""]).arg("--metadata-file").arg("blob").arg(&binf).arg(&out).output().unwrap();
        if !st.status.success() { witness("C11", "bita compress --force-create over an existing file failed", String::from_utf8_lossy(&st.stderr).into_owned()); }
        archive = std::fs::read(&out).unwrap();
    }
    let fixed: Vec<Vec<u8>> = source.chunks(4096).map(|c| c.to_vec()).collect();
    judge("C11", "CLI writer, --force-create over a longer existing file, with metadata", &archive, &source, Some(fixed), 64, Some([0, 0, 4096, 0, 64, 2]), (0, 0));
    // recorded metadata (independent decoder) and what `bita info --metadata-key` reports back, byte for byte
    let dsz = u64::from_le_bytes(archive[6..14].try_into().unwrap()) as usize;
    let d = decode_dict(&archive[14..14 + dsz]);
    let want: Vec<(&str, Vec<u8>)> = vec![("blob", bin.clone()), ("empty", vec![]), ("greeting", "hello wörld".as_bytes().to_vec())];
    for (k, v) in &want {
        match d.metadata.iter().find(|(kk, _)| kk == k.as_bytes()) {
            Some((_, vv)) if vv == v => {}
            other => witness("C11", "requested metadata is not recorded verbatim", format!("key {} recorded {:?}", k, other.map(|(_, v)| v.len()))),
        }
        let o = Command::new(BITA).arg("info").arg("--metadata-key").arg(k).arg(&out).output().unwrap();
        if !o.status.success() || o.stdout != *v { witness("C11", "bita info --metadata-key does not report the recorded value verbatim", format!("key {}: {} bytes reported, {} recorded", k, o.stdout.len(), v.len())); }
    }
    if d.metadata.len() != want.len() { witness("C11", "metadata entries recorded differ from the requested ones", format!("{}", d.metadata.len())); }
    println!("COMPANION-OK cases={}", 1 + want.len());
}

fn clone_cli(dir: &Tmp, archive: &Path, extra: &[&str], tag: &str) -> (bool, Option<Vec<u8>>) {
    let out = dir.path(&format!("out-{}.bin", tag));
    let _ = std::fs::remove_file(&out);
    let st = Command::new(BITA).arg("clone").args(extra).arg(archive).arg(&out).output().unwrap();
    (st.status.success(), std::fs::read(&out).ok())
}

#[test]
fn c04_cli_clone() {
    let dir = Tmp::new("c04");
    let mut rng = Rng(0x0404_c11c_0000_0007);
    let source: Vec<u8> = (0..6).flat_map(|i| block(&mut rng, 2048, i % 2 == 0, i as u8)).collect();
    let src = dir.path("s.src");
    std::fs::write(&src, &source).unwrap();
    let mut cases = 0;
    for (cname, args) in [("none", vec!["--fixed-size", "2048", "--compression", "none", "--hash-length", "16"]), ("brotli", vec!["--fixed-size", "2048", "--compression", "brotli", "--compression-level", "3"])] {
        // a complete, correct archive first (one attempt: an untouched archive must clone back to its source)
        let good = compress_cli(&dir, &format!("good-{}", cname), &src, &args).unwrap();
        {
            let p = dir.path("good.cba"); std::fs::write(&p, &good).unwrap();
            let (ok, out) = clone_cli(&dir, &p, &[], "good");
            if !(ok && out.as_deref() == Some(&source[..])) { witness("C04", "an untouched archive written by bita compress does not clone back to its source", cname.into()); }
        }
        let dsz = u64::from_le_bytes(good[6..14].try_into().unwrap()) as usize;
        let hl = 14 + dsz + 72;
        let sum = good[hl - 64..hl].iter().map(|b| format!("{:02x}", b)).collect::<String>();
        let check = |what: &str, bytes: Vec<u8>, extra: &[&str], tag: &str| {
            let p = dir.path(&format!("c-{}.cba", tag)); std::fs::write(&p, &bytes).unwrap();
            let (ok, out) = clone_cli(&dir, &p, extra, tag);
            if ok && out.as_deref() != Some(&source[..]) { witness("C04", "bita clone exits 0 with an output that differs from the source", format!("{} ({}, archive config {})", what, tag, cname)); }
        };
        // payload bit flips (one per 97 bytes), header bit flips (one per 13 bytes), truncations
        let mut k = 0;
        for pos in (hl..good.len()).step_by(97) { let mut b = good.clone(); b[pos] ^= 0x10; check(&format!("payload byte {} flipped", pos), b, &[], &format!("p{}", k)); k += 1; cases += 1; }
        for pos in (0..hl).step_by(13) { let mut b = good.clone(); b[pos] ^= 0x04; check(&format!("header byte {} flipped", pos), b, &[], &format!("h{}", k)); k += 1; cases += 1; }
        let desc_ends: Vec<usize> = { let d = decode_dict(&good[14..14 + dsz]); d.descriptors.iter().map(|c| hl + (c.archive_offset + c.archive_size) as usize).collect() };
        let mut cuts: Vec<usize> = vec![0, 5, 14, hl - 1, hl, hl + 1, good.len() - 1];
        cuts.extend(desc_ends.iter().take(desc_ends.len().saturating_sub(1)).copied());
        cuts.extend(desc_ends.iter().map(|e| e - 7));
        for c in cuts { check(&format!("archive truncated to {} of {} bytes", c, good.len()), good[..c.min(good.len())].to_vec(), &[], &format!("t{}", c)); cases += 1; }
        // --verify-header: only the exact checksum may pass
        let p = dir.path("pin.cba"); std::fs::write(&p, &good).unwrap();
        let wrong = { let mut w = sum.clone().into_bytes(); w[3] = if w[3] == b'0' { b'1' } else { b'0' }; String::from_utf8(w).unwrap() };
        for (pin, must_pass) in [(sum.clone(), true), (sum[..2].to_string(), false), (sum[..64].to_string(), false), (String::new(), false), (wrong, false)] {
            let (ok, out) = clone_cli(&dir, &p, &["--verify-header", &pin], "pin");
            if ok && !must_pass { witness("C04", "clone proceeds although the given --verify-header value is not the archive's header checksum", format!("pin {:?} (checksum {})", pin, sum)); }
            // "the clone proceeds only if ..": with a pin that does not match, nothing may have been written at all
            if !must_pass && out.is_some() { witness("C04", "an output file was written although the given --verify-header value is not the archive's header checksum", format!("pin {:?} (checksum {}), exit ok={}", pin, sum, ok)); }
            if must_pass && !(ok && out.as_deref() == Some(&source[..])) { witness("C04", "clone refuses the correct --verify-header value", format!("{}", sum)); }
            cases += 1;
        }
        // --verify-output on a good archive passes
        let (ok, _) = clone_cli(&dir, &p, &["--verify-output"], "vo");
        if !ok { witness("C04", "clone --verify-output fails on an intact archive", cname.into()); }
    }
    println!("COMPANION-OK cases={}", cases);
}

/// C11, schedule-sensitive: the first chunk is expensive to compress, the following ones trivial, several compression tasks
/// in flight -- stored chunks must still lie back-to-back in descriptor (= first occurrence) order
#[test]
fn c11_pipeline_order() {
    let dir = Tmp::new("c11order");
    const CHUNK: usize = 192 * 1024;
    let mut rng = Rng(0xc11_0bde_0000_0003);
    // a "wordy" chunk: words over a small alphabet (compressible, but slow at a high brotli level)
    let mut source: Vec<u8> = Vec::with_capacity(8 * CHUNK);
    while source.len() < CHUNK { let wl = 2 + (rng.next() % 9) as usize; for _ in 0..wl { source.push(b'a' + (rng.next() % 26) as u8); } source.push(b' '); }
    source.truncate(CHUNK);
    for i in 1..8u8 { source.extend(std::iter::repeat(i).take(CHUNK)); }
    let fixed: Vec<Vec<u8>> = source.chunks(CHUNK).map(|c| c.to_vec()).collect();
    let src = dir.path("order.src");
    std::fs::write(&src, &source).unwrap();
    let mut cases = 0;
    let rt = tokio::runtime::Builder::new_multi_thread().worker_threads(2).enable_all().build().unwrap();
    for round in 0..3 {
        let opts = bitar::api::compress::CreateArchiveOptions { chunker_config: bitar::chunker::Config::FixedSize(CHUNK), chunk_hash_length: 64,
            compression: Some(bitar::Compression::brotli(9).unwrap()), num_chunk_buffers: 4, ..Default::default() };
        let mut out: Vec<u8> = vec![];
        rt.block_on(bitar::api::compress::create_archive(&source[..], &mut out, &opts)).unwrap();
        judge("C11", &format!("library writer, slow first chunk, 4 buffers, round {}", round), &out, &source, Some(fixed.clone()), 64, Some([0, 0, CHUNK as u64, 0, 64, 2]), (3, 9));
        let cs = CHUNK.to_string();
        let archive = compress_cli(&dir, &format!("order-{}", round), &src, &["--fixed-size", &cs, "--compression", "brotli", "--compression-level", "9", "--buffered-chunks", "4"]).unwrap();
        judge("C11", &format!("CLI writer, slow first chunk, 4 buffers, round {}", round), &archive, &source, Some(fixed.clone()), 64, Some([0, 0, CHUNK as u64, 0, 64, 2]), (3, 9));
        cases += 2;
    }
    println!("COMPANION-OK cases={}", cases);
}

// ------------------------------------------------------------------------------------------ C06 / C02 / C03 through the CLI
/// `bita -v clone` with --seed-output and --seed files, fixed-size chunks of 4096 bytes (so the scan finds exactly the aligned
/// blocks): the number of chunks fetched from the archive (the CLI's own "Fetching N chunks" line) must be the number of unique
/// source chunks found neither in the prior output -- anywhere in it, also beyond the source length -- nor in a seed; the
/// output must equal the source and have its length.
#[test]
fn c06_cli_seed_reuse() {
    let dir = Tmp::new("c06");
    let mut rng = Rng(0x0606_c11c_0000_0011);
    let blk: Vec<Vec<u8>> = (0..8).map(|i| block(&mut rng, 4096, true, i as u8)).collect();   // 0..5 source chunks, 6..7 junk
    let cat = |ids: &[usize]| -> Vec<u8> { ids.iter().flat_map(|&i| blk[i].iter().copied()).collect() };
    let mut cases = 0;
    // (source, prior output or none, seed files)
    let scenarios: Vec<(Vec<usize>, Option<Vec<usize>>, Vec<Vec<usize>>)> = vec![
        (vec![0, 1, 2, 3], None, vec![]),
        (vec![0, 1, 2, 3], Some(vec![6, 1, 7, 7, 0, 2]), vec![]),              // reusable chunks beyond the source length
        (vec![0, 1, 2, 3], Some(vec![3, 2, 1, 0]), vec![]),                    // everything there, reversed
        (vec![0, 1, 0, 2, 0], Some(vec![6, 0]), vec![vec![2, 7]]),             // a chunk at several offsets; output + seed file
        (vec![0, 1, 2, 3, 4, 5], Some(vec![0, 1]), vec![vec![5, 6], vec![7, 3]]),
        (vec![0, 1, 2], Some(vec![0, 1, 2, 6, 7]), vec![]),                    // already in place, longer output
        (vec![4, 4, 5], None, vec![vec![5], vec![4]]),
    ];
    for (source_ids, prior, seeds) in scenarios {
        let source = cat(&source_ids);
        let src = dir.path("s.src");
        std::fs::write(&src, &source).unwrap();
        let arch = dir.path("a.cba");
        let _ = std::fs::remove_file(&arch);
        let st = Command::new(BITA).arg("compress").arg("-i").arg(&src).args(["--fixed-size", "4096", "--compression", "none"]).arg(&arch).output().unwrap();
        if !st.status.success() { witness("C11", "bita compress failed", String::from_utf8_lossy(&st.stderr).into()); }
        let out = dir.path("out.bin");
        let _ = std::fs::remove_file(&out);
        let mut cmd = Command::new(BITA);
        cmd.arg("-v").arg("clone");
        let mut available: std::collections::BTreeSet<usize> = Default::default();
        if let Some(p) = &prior { std::fs::write(&out, cat(p)).unwrap(); cmd.arg("--seed-output"); available.extend(p.iter().copied()); }
        for (i, sd) in seeds.iter().enumerate() {
            let sp = dir.path(&format!("seed{}.bin", i));
            std::fs::write(&sp, cat(sd)).unwrap();
            cmd.arg("--seed").arg(&sp);
            available.extend(sd.iter().copied());
        }
        let o = cmd.arg(&arch).arg(&out).output().unwrap();
        let log = format!("{}{}", String::from_utf8_lossy(&o.stdout), String::from_utf8_lossy(&o.stderr));
        let label = format!("source {:?} prior {:?} seeds {:?}", source_ids, prior, seeds);
        if !o.status.success() { witness("C03", "bita clone with seeds failed", format!("{} :: {}", label, &log[log.len().saturating_sub(400)..])); }
        let got = std::fs::read(&out).unwrap();
        if got != source {
            let kind = if prior.is_some() { "C03" } else { "C02" };
            witness(kind, "the output differs from the source after a successful clone with seeds", label.clone());
        }
        let uniq: std::collections::BTreeSet<usize> = source_ids.iter().copied().collect();
        let expect = uniq.iter().filter(|i| !available.contains(i)).count();
        let fetched = log.lines().filter_map(|l| l.split("Fetching ").nth(1)).filter_map(|t| t.split(' ').next().and_then(|n| n.parse::<usize>().ok())).next();
        match fetched {
            Some(n) if n == expect => {}
            other => witness("C06", "the number of chunks fetched from the archive is not the number of chunks missing from output and seeds", format!("fetched {:?} expected {} :: {}", other, expect, label)),
        }
        cases += 1;
    }
    println!("COMPANION-OK cases={}", cases);
}

/// C02 through the CLI: seeds never change the output -- also when the output file already exists and is longer than the source
/// (--force-create) and the seeds happen to cover every chunk.  Seed sets: none / unrelated / part of the source / the whole
/// source / source + unrelated, x fresh output / existing longer output.
#[test]
fn c02_cli_seeds_over_existing_output() {
    let dir = Tmp::new("c02");
    let mut rng = Rng(0x0202_c11c_0000_0021);
    let blk: Vec<Vec<u8>> = (0..7).map(|i| block(&mut rng, 4096, true, i as u8)).collect();
    let cat = |ids: &[usize]| -> Vec<u8> { ids.iter().flat_map(|&i| blk[i].iter().copied()).collect() };
    let source_ids = vec![0usize, 1, 2, 1, 3];
    let source = cat(&source_ids);
    let src = dir.path("s.src");
    std::fs::write(&src, &source).unwrap();
    let arch = dir.path("a.cba");
    let st = Command::new(BITA).arg("compress").arg("-i").arg(&src).args(["--fixed-size", "4096", "--compression", "none"]).arg(&arch).output().unwrap();
    if !st.status.success() { witness("C11", "bita compress failed", String::from_utf8_lossy(&st.stderr).into()); }
    let seed_sets: Vec<Vec<Vec<usize>>> = vec![vec![], vec![vec![5, 6]], vec![vec![1, 3]], vec![vec![0, 1, 2, 1, 3]], vec![vec![3, 2], vec![6, 1, 0]]];
    let mut cases = 0;
    for existing in [false, true] {
        for seeds in &seed_sets {
            let out = dir.path("out.bin");
            let _ = std::fs::remove_file(&out);
            let mut cmd = Command::new(BITA);
            cmd.arg("clone");
            if existing { std::fs::write(&out, cat(&[6, 5, 6, 5, 6, 5, 6, 5])).unwrap(); cmd.arg("--force-create"); }
            for (i, sd) in seeds.iter().enumerate() {
                let sp = dir.path(&format!("seed{}.bin", i));
                std::fs::write(&sp, cat(sd)).unwrap();
                cmd.arg("--seed").arg(&sp);
            }
            let o = cmd.arg(&arch).arg(&out).output().unwrap();
            let label = format!("existing longer output: {} seeds {:?}", existing, seeds);
            if !o.status.success() { witness("C02", "bita clone with seed files failed", format!("{} :: {}", label, String::from_utf8_lossy(&o.stderr))); }
            let got = std::fs::read(&out).unwrap();
            if got != source { witness("C02", "seeds changed the output of a successful clone", format!("{} :: output length {} source length {}", label, got.len(), source.len())); }
            cases += 1;
        }
    }
    println!("COMPANION-OK cases={}", cases);
}

// ------------------------------------------------------------------------------------------ C14
/// refused operations leave the output untouched: {output absent, existing file} x {no flag, --force-create, --seed-output} x
/// {valid archive, wrong --verify-header, corrupted header}, for clone; existing output without --force-create for compress.
/// A refusal = non-zero exit; then an existing output must keep its exact bytes and an absent one must stay absent (for header /
/// archive refusals).  A valid, permitted combination must succeed (control).
#[test]
fn c14_refusals_leave_the_output_untouched() {
    let dir = Tmp::new("c14");
    let mut rng = Rng(0x1414_c11c_0000_0031);
    let source: Vec<u8> = (0..5).flat_map(|i| block(&mut rng, 4096, true, i as u8)).collect();
    let src = dir.path("s.src");
    std::fs::write(&src, &source).unwrap();
    let arch = dir.path("a.cba");
    let st = Command::new(BITA).arg("compress").arg("-i").arg(&src).args(["--fixed-size", "4096", "--compression", "none"]).arg(&arch).output().unwrap();
    if !st.status.success() { witness("C11", "bita compress failed", String::from_utf8_lossy(&st.stderr).into()); }
    let good = std::fs::read(&arch).unwrap();
    let bad = dir.path("bad.cba");
    { let mut b = good.clone(); b[20] ^= 0x40; std::fs::write(&bad, &b).unwrap(); }
    let prior: Vec<u8> = (0..3).flat_map(|i| block(&mut rng, 5000, true, 40 + i as u8)).collect();
    let mut cases = 0;
    for existing in [false, true] {
        for flag in ["", "--force-create", "--seed-output"] {
            for kind in ["valid", "wrong-pin", "corrupt"] {
                let out = dir.path("out.bin");
                let _ = std::fs::remove_file(&out);
                if existing { std::fs::write(&out, &prior).unwrap(); }
                let mut cmd = Command::new(BITA);
                cmd.arg("clone");
                if !flag.is_empty() { cmd.arg(flag); }
                if kind == "wrong-pin" { cmd.arg("--verify-header").arg("ab".repeat(64)); }
                let o = cmd.arg(if kind == "corrupt" { &bad } else { &arch }).arg(&out).output().unwrap();
                let label = format!("clone existing={} flag={:?} archive={}", existing, flag, kind);
                let must_refuse = kind != "valid" || (existing && flag.is_empty());
                if must_refuse {
                    if o.status.success() { witness("C14", "an operation that must be refused reported success", label.clone()); }
                    match (existing, std::fs::read(&out)) {
                        (true, Ok(b)) => if b != prior { witness("C14", "a refused clone changed the existing output", format!("{} (length {} -> {})", label, prior.len(), b.len())); },
                        (true, Err(_)) => witness("C14", "a refused clone removed the existing output", label.clone()),
                        (false, Ok(_)) => witness("C14", "a refused clone created the output file", label.clone()),
                        (false, Err(_)) => {}
                    }
                } else {
                    if !o.status.success() { witness("C14", "a permitted clone was refused", format!("{} :: {}", label, String::from_utf8_lossy(&o.stderr))); }
                    if std::fs::read(&out).ok().as_deref() != Some(&source[..]) { witness("C03", "a permitted clone did not produce the source", label.clone()); }
                }
                cases += 1;
            }
        }
    }
    // compress over an existing archive without --force-create
    let keep = std::fs::read(&arch).unwrap();
    let o = Command::new(BITA).arg("compress").arg("-i").arg(&src).args(["--fixed-size", "2048", "--compression", "none"]).arg(&arch).output().unwrap();
    if o.status.success() { witness("C14", "compress over an existing output without --force-create reported success", "".into()); }
    if std::fs::read(&arch).unwrap() != keep { witness("C14", "a refused compress changed the existing output", "".into()); }
    cases += 1;
    println!("COMPANION-OK cases={}", cases);
}
