// Bounded native companion for C09 / C10 (NOT a proof; see DESIGN.md 2.2 "Replay").
// Drives the real `bitar::chunker::Config::new_chunker` over an AsyncRead that scripts read sizes and
// Pending results, and compares every (offset, length) with a reference chunker written from the C09
// statement (first position >= min where the hash of the trailing window has all filter bits set, else max).
// It is run only (a) to look for a concrete failing input when a Verus obligation of the chunker units
// fails or cannot be assembled, and (b) in the thorough tier as extra bounded exploration.
// Prints `WITNESS <json>` and fails on the first disagreement.
use bitar::chunker::{Config, FilterBits, FilterConfig};
use futures_util::StreamExt;
use std::pin::Pin;
use std::task::{Context, Poll};
use tokio::io::{AsyncRead, ReadBuf};

include!("verif_buzhash_table.inc"); // BUZHASH_TABLE, BUZHASH_SEED: constants re-extracted from the source each run

struct Scripted {
    data: Vec<u8>,
    pos: usize,
    script: Vec<usize>, // read sizes; 0 = return Pending once
    step: usize,
}
impl AsyncRead for Scripted {
    fn poll_read(mut self: Pin<&mut Self>, cx: &mut Context<'_>, buf: &mut ReadBuf<'_>) -> Poll<std::io::Result<()>> {
        let n = if self.step < self.script.len() { self.script[self.step] } else { usize::MAX };
        self.step += 1;
        if n == 0 {
            cx.waker().wake_by_ref();
            return Poll::Pending;
        }
        let left = self.data.len() - self.pos;
        let k = n.min(left).min(buf.remaining());
        let p = self.pos;
        buf.put_slice(&self.data[p..p + k]);
        self.pos += k;
        Poll::Ready(Ok(()))
    }
}

#[derive(Clone, Copy, Debug, PartialEq)]
enum Algo { RollSum, BuzHash, Fixed }

#[derive(Clone, Copy, Debug)]
struct Cfg { algo: Algo, bits: u32, min: usize, max: usize, w: usize }

fn to_config(c: &Cfg) -> Config {
    let f = FilterConfig { filter_bits: FilterBits::from_bits(c.bits), min_chunk_size: c.min, max_chunk_size: c.max, window_size: c.w };
    match c.algo { Algo::RollSum => Config::RollSum(f), Algo::BuzHash => Config::BuzHash(f), Algo::Fixed => Config::FixedSize(c.max) }
}

fn mask(bits: u32) -> u32 { if bits >= 32 { u32::MAX } else { (1u32 << bits) - 1 } }

/// hash of the trailing window of x[..q]
fn trail_hash(c: &Cfg, x: &[u8], q: usize) -> Option<u32> {
    let w = c.w;
    match c.algo {
        Algo::RollSum => {
            let mut s1: u64 = 31 * w as u64;
            let mut s2: u64 = 31 * (w as u64) * (w as u64 - 1);
            for i in 0..w {
                // window symbol i (0 = oldest) is stream byte q - w + i, zero before the stream start
                let pos = q as i64 - w as i64 + i as i64;
                let v = if pos >= 0 { x[pos as usize] as u64 } else { 0 };
                s1 += v;
                s2 += (w - i) as u64 * v;
            }
            let s1 = (s1 & 0xffff_ffff) as u32;
            let s2 = (s2 & 0xffff_ffff) as u32;
            Some((s1 << 16) | (s2 & 0xffff))
        }
        Algo::BuzHash => {
            if q < w { return None; }
            let mut h: u32 = 0;
            for i in 0..w {
                let t = BUZHASH_TABLE[x[q - w + i] as usize] ^ BUZHASH_SEED;
                h ^= t.rotate_left(((w - 1 - i) % 32) as u32);
            }
            Some(h)
        }
        Algo::Fixed => None,
    }
}

fn reference(c: &Cfg, x: &[u8]) -> Vec<(u64, usize)> {
    let mut out = vec![];
    let mut a = 0usize;
    while a < x.len() {
        let rem = x.len() - a;
        let mut cut = None;
        if c.algo == Algo::Fixed {
            if rem >= c.max { cut = Some(c.max); }
        } else {
            let mut lo = c.min.max(1);
            if c.algo == Algo::BuzHash && a == 0 { lo = lo.max(c.w + 1); }
            for k in 1..=rem.min(c.max) {
                let hit = k >= lo && trail_hash(c, x, a + k).map(|h| (h | mask(c.bits)) == h).unwrap_or(false);
                if hit || k == c.max { cut = Some(k); break; }
            }
        }
        let k = cut.unwrap_or(rem);
        out.push((a as u64, k));
        a += k;
    }
    out
}

async fn real(c: &Cfg, x: &[u8], script: &[usize]) -> Result<Vec<(u64, usize)>, String> {
    PROGRESS.fetch_add(1, std::sync::atomic::Ordering::Relaxed);
    if let Ok(mut cur) = CURRENT.try_lock() { *cur = format!("{:?} stream {:?} read_script {:?}", c, &x[..x.len().min(48)], script); }
    let src = Scripted { data: x.to_vec(), pos: 0, script: script.to_vec(), step: 0 };
    let mut s = to_config(c).new_chunker(src);
    let mut out = vec![];
    let mut guard = 0;
    while let Some(r) = s.next().await {
        let (o, ch) = r.map_err(|e| e.to_string())?;
        // bytes must be the stream's bytes at that offset
        let o_us = o as usize;
        if o_us + ch.len() > x.len() || &x[o_us..o_us + ch.len()] != ch.data() {
            return Err(format!("chunk bytes differ from the stream at offset {o}"));
        }
        out.push((o, ch.len()));
        guard += 1;
        if guard > 4 * x.len() + 8 { return Err("chunk stream does not terminate".into()); }
    }
    Ok(out)
}

fn witness(kind: &str, c: &Cfg, x: &[u8], script: &[usize], want: &[(u64, usize)], got: &str) -> ! {
    println!("WITNESS {{\"kind\":\"{}\",\"config\":\"{:?}\",\"stream\":{:?},\"read_script\":{:?},\"expected_chunks\":{:?},\"got\":{}}}",
        kind, c, x, script, want, got);
    panic!("chunker disagrees with the C09 reference");
}

static PROGRESS: std::sync::atomic::AtomicUsize = std::sync::atomic::AtomicUsize::new(0);
static CURRENT: std::sync::Mutex<String> = std::sync::Mutex::new(String::new());
/// a chunker that stops making progress for 30 s on a tiny input is reported as a witness (endless loop)
fn start_watchdog() {
    std::thread::spawn(|| {
        let mut last = PROGRESS.load(std::sync::atomic::Ordering::Relaxed);
        loop {
            std::thread::sleep(std::time::Duration::from_secs(30));
            let now = PROGRESS.load(std::sync::atomic::Ordering::Relaxed);
            if now == last {
                let cur = CURRENT.lock().map(|c| c.clone()).unwrap_or_default();
                println!("WITNESS {{\"kind\":\"C09\",\"what\":\"no progress for 30 s: the chunker does not terminate on this case\",\"case\":{:?}}}", cur);
                std::process::exit(1);
            }
            last = now;
        }
    });
}

struct Rng(u64);
impl Rng {
    fn next(&mut self) -> u64 { self.0 ^= self.0 << 13; self.0 ^= self.0 >> 7; self.0 ^= self.0 << 17; self.0 }
    fn below(&mut self, n: u64) -> u64 { self.next() % n }
}

fn configs() -> Vec<Cfg> {
    let mut v = vec![];
    for algo in [Algo::RollSum, Algo::BuzHash] {
        for w in [1usize, 2, 3, 5] {
            for min in [0usize, 1, 2, 3, 4, 6, 9] {
                for max in [1usize, 2, 3, 4, 5, 7, 12] {
                    for bits in [1u32, 2] {
                        if min > max { continue; }
                        if algo == Algo::BuzHash && w > max { continue; }
                        v.push(Cfg { algo, bits, min, max, w });
                    }
                }
            }
        }
    }
    for n in [1usize, 2, 3, 5] { v.push(Cfg { algo: Algo::Fixed, bits: 0, min: 0, max: n, w: 0 }); }
    v
}

fn catch<F: std::future::Future<Output = Result<Vec<(u64, usize)>, String>>>(f: F) -> Result<Vec<(u64, usize)>, String> {
    let rt = tokio::runtime::Builder::new_current_thread().build().unwrap();
    match std::panic::catch_unwind(std::panic::AssertUnwindSafe(|| rt.block_on(f))) {
        Ok(r) => r,
        Err(e) => Err(format!("panic: {}", e.downcast_ref::<String>().cloned().or_else(|| e.downcast_ref::<&str>().map(|s| s.to_string())).unwrap_or_default())),
    }
}

#[test]
fn c09_reference_agreement() {
    start_watchdog();
    std::panic::set_hook(Box::new(|_| {}));
    let seed: u64 = std::env::var("VERIF_SEED").ok().and_then(|s| s.parse().ok()).unwrap_or(1);
    let budget: usize = std::env::var("VERIF_COMPANION_CASES").ok().and_then(|s| s.parse().ok()).unwrap_or(60000);
    let mut rng = Rng(0x9e3779b97f4a7c15 ^ seed.wrapping_mul(0x100000001b3));
    let cfgs = configs();
    let alphabet = [0u8, 0, 1, 7, 200];
    let mut cases = 0usize;
    // (1) exhaustive small core: every stream over {0,1} up to length 6, whole-buffer read and 1-byte reads
    for c in &cfgs {
        for len in 0..=6usize {
            for bitsv in 0..(1u32 << len) {
                let x: Vec<u8> = (0..len).map(|i| ((bitsv >> i) & 1) as u8 * 7).collect();
                let want = reference(c, &x);
                for script in [vec![], vec![1; 8], vec![2, 0, 1, 0, 3]] {
                    match catch(real(c, &x, &script)) {
                        Ok(got) if got == want => {}
                        Ok(got) => witness("C09", c, &x, &script, &want, &format!("{:?}", got)),
                        Err(e) => witness("C09", c, &x, &script, &want, &format!("{:?}", e)),
                    }
                    cases += 1;
                }
            }
        }
    }
    // (2) random streams with zero runs / repeats and random read scripts (incl. Pending)
    while cases < budget {
        let c = &cfgs[rng.below(cfgs.len() as u64) as usize];
        let len = rng.below(40) as usize;
        let mut x = Vec::with_capacity(len);
        while x.len() < len {
            let b = alphabet[rng.below(alphabet.len() as u64) as usize];
            let long = rng.below(4) == 0;
            let run = 1 + rng.below(if long { 9 } else { 2 }) as usize;
            for _ in 0..run { if x.len() < len { x.push(b); } }
        }
        let script: Vec<usize> = (0..rng.below(12)).map(|_| rng.below(5) as usize).collect();
        let want = reference(c, &x);
        match catch(real(c, &x, &script)) {
            Ok(got) if got == want => {}
            Ok(got) => witness("C09", c, &x, &script, &want, &format!("{:?}", got)),
            Err(e) => witness("C09", c, &x, &script, &want, &format!("{:?}", e)),
        }
        cases += 1;
    }
    println!("COMPANION-OK cases={}", cases);
}

/// larger windows (arithmetic of the hashes) on a few random streams
#[test]
fn c09_large_window_agreement() {
    start_watchdog();
    std::panic::set_hook(Box::new(|_| {}));
    let mut rng = Rng(0x1234_5678_9abc_def1);
    let mut cases = 0;
    for (algo, w) in [(Algo::RollSum, 64usize), (Algo::RollSum, 6000), (Algo::RollSum, 16384), (Algo::BuzHash, 16), (Algo::BuzHash, 33), (Algo::BuzHash, 64)] {
        for (min, max) in [(0usize, 40000usize), (w / 2, 50000), (w + 5, 60000)] {
            if algo == Algo::BuzHash && w > max { continue; }
            let c = Cfg { algo, bits: 6, min, max, w };
            let len = 3 * w + 3000;
            let mut x: Vec<u8> = (0..len).map(|_| rng.below(256) as u8).collect();
            // some runs
            for _ in 0..4 { let p = rng.below(len as u64) as usize; let v = [0u8, 255, 9][rng.below(3) as usize]; for i in p..(p + w + 7).min(len) { x[i] = v; } }
            let want = reference(&c, &x);
            for script in [vec![], vec![w / 2 + 1; 64], vec![1, 0, 5, 0, 1000]] {
                match catch(real(&c, &x, &script)) {
                    Ok(got) if got == want => {}
                    Ok(got) => witness("C09", &c, &x[..64.min(x.len())], &script, &want[..4.min(want.len())], &format!("\"first chunks {:?} (stream of {} bytes, seed fixed)\"", &got[..4.min(got.len())], len)),
                    Err(e) => witness("C09", &c, &x[..64.min(x.len())], &script, &want[..4.min(want.len())], &format!("{:?}", e)),
                }
                cases += 1;
            }
        }
    }
    println!("COMPANION-OK cases={}", cases);
}

/// chunks larger than the streaming chunker's 1 MiB refill step (the refill lines of poll_next are not under contract)
#[test]
fn c09_chunks_larger_than_refill() {
    start_watchdog();
    std::panic::set_hook(Box::new(|_| {}));
    let mut rng = Rng(0x0909_0909_aaaa_5555);
    let len = 4 * 1024 * 1024 + 321;
    let x: Vec<u8> = (0..len).map(|_| rng.below(256) as u8).collect();
    let mut cases = 0;
    for c in [
        Cfg { algo: Algo::Fixed, bits: 0, min: 0, max: 1024 * 1024 + 512 * 1024, w: 0 },
        Cfg { algo: Algo::RollSum, bits: 19, min: 1200 * 1024, max: 3 * 1024 * 1024, w: 16 },
        Cfg { algo: Algo::BuzHash, bits: 19, min: 1200 * 1024, max: 2 * 1024 * 1024 + 7, w: 16 },
    ] {
        let want = reference(&c, &x);
        for script in [vec![], vec![300_000; 40], vec![1_000_000, 0, 48_576, 0, 2_000_000]] {
            match catch(real(&c, &x, &script)) {
                Ok(got) if got == want => {}
                Ok(got) => witness("C09", &c, &x[..32], &script, &want[..want.len().min(6)], &format!("\"chunks {:?} (random stream of {} bytes, fixed seed)\"", &got[..got.len().min(6)], len)),
                Err(e) => witness("C09", &c, &x[..32], &script, &want[..want.len().min(6)], &format!("{:?}", e)),
            }
            cases += 1;
        }
    }
    println!("COMPANION-OK cases={}", cases);
}

/// C10: after a common boundary at least one window into the common data, all later boundaries agree
#[test]
fn c10_resynchronisation() {
    start_watchdog();
    std::panic::set_hook(Box::new(|_| {}));
    let seed: u64 = std::env::var("VERIF_SEED").ok().and_then(|s| s.parse().ok()).unwrap_or(1);
    let mut rng = Rng(0xdeadbeefcafef00d ^ seed);
    let cfgs: Vec<Cfg> = configs().into_iter().filter(|c| c.algo != Algo::Fixed).collect();
    let mut cases = 0;
    let rounds: usize = std::env::var("VERIF_COMPANION_CASES").ok().and_then(|s| s.parse().ok()).map(|n: usize| (n / 6).max(6000)).unwrap_or(6000);
    for _ in 0..rounds {
        let c = &cfgs[rng.below(cfgs.len() as u64) as usize];
        let mk = |rng: &mut Rng, n: usize| -> Vec<u8> {
            let mut v = vec![];
            while v.len() < n { let b = [0u8, 0, 3, 9][rng.below(4) as usize]; let r = 1 + rng.below(6) as usize; for _ in 0..r { if v.len() < n { v.push(b); } } }
            v
        };
        let p1 = { let n = rng.below(6) as usize; mk(&mut rng, n) };
        let p2 = { let n = rng.below(6) as usize; mk(&mut rng, n) };
        let s = { let n = 10 + rng.below(40) as usize; mk(&mut rng, n) };
        let x1: Vec<u8> = p1.iter().chain(s.iter()).cloned().collect();
        let x2: Vec<u8> = p2.iter().chain(s.iter()).cloned().collect();
        let (r1, r2) = match (catch(real(c, &x1, &[])), catch(real(c, &x2, &[]))) {
            (Ok(a), Ok(b)) => (a, b),
            (Err(e), _) | (_, Err(e)) => witness("C10", c, &x1, &[], &[], &format!("{:?}", e)),
        };
        // boundaries in S coordinates, excluding the end of stream
        let b1: Vec<i64> = r1.iter().map(|(o, l)| *o as i64 + *l as i64 - p1.len() as i64).filter(|b| *b < s.len() as i64).collect();
        let b2: Vec<i64> = r2.iter().map(|(o, l)| *o as i64 + *l as i64 - p2.len() as i64).filter(|b| *b < s.len() as i64).collect();
        if let Some(j) = b1.iter().find(|j| **j >= c.w as i64 && b2.contains(j)) {
            let t1: Vec<&i64> = b1.iter().filter(|b| *b > j).collect();
            let t2: Vec<&i64> = b2.iter().filter(|b| *b > j).collect();
            if t1 != t2 {
                println!("WITNESS {{\"kind\":\"C10\",\"config\":\"{:?}\",\"prefix1\":{:?},\"prefix2\":{:?},\"common\":{:?},\"common_boundary\":{},\"later_boundaries_1\":{:?},\"later_boundaries_2\":{:?}}}", c, p1, p2, s, j, t1, t2);
                panic!("boundaries after a common boundary differ");
            }
        }
        cases += 1;
    }
    println!("COMPANION-OK cases={}", cases);
}

/// C10 with windows of 32 bytes and more (the rotation amounts of BuzHash wrap at 32) on longer random streams
#[test]
fn c10_large_window_resynchronisation() {
    start_watchdog();
    std::panic::set_hook(Box::new(|_| {}));
    let mut rng = Rng(0x0c10_0c10_7777_1357);
    let mut cases = 0;
    for (algo, w) in [(Algo::BuzHash, 31usize), (Algo::BuzHash, 32), (Algo::BuzHash, 33), (Algo::BuzHash, 64), (Algo::BuzHash, 100), (Algo::RollSum, 64), (Algo::RollSum, 300)] {
        for (bits, min, max) in [(4u32, 0usize, 4000usize), (5, 20, 500), (3, w, 2 * w + 50)] {
            let c = Cfg { algo, bits, min, max, w };
            let pairs = if std::env::var("VERIF_COMPANION_DEEP").is_ok() { 120 } else { 12 };
            for _ in 0..pairs {
                let n1 = rng.below(3 * w as u64) as usize;
                let n2 = rng.below(3 * w as u64) as usize;
                let p1: Vec<u8> = (0..n1).map(|_| rng.below(256) as u8).collect();
                let p2: Vec<u8> = (0..n2).map(|_| rng.below(256) as u8).collect();
                let s: Vec<u8> = (0..(6 * w + 1500)).map(|_| rng.below(256) as u8).collect();
                let x1: Vec<u8> = p1.iter().chain(s.iter()).cloned().collect();
                let x2: Vec<u8> = p2.iter().chain(s.iter()).cloned().collect();
                let (r1, r2) = match (catch(real(&c, &x1, &[])), catch(real(&c, &x2, &[]))) {
                    (Ok(a), Ok(b)) => (a, b),
                    (Err(e), _) | (_, Err(e)) => witness("C10", &c, &x1[..64.min(x1.len())], &[], &[], &format!("{:?}", e)),
                };
                let b1: Vec<i64> = r1.iter().map(|(o, l)| *o as i64 + *l as i64 - p1.len() as i64).filter(|b| *b < s.len() as i64).collect();
                let b2: Vec<i64> = r2.iter().map(|(o, l)| *o as i64 + *l as i64 - p2.len() as i64).filter(|b| *b < s.len() as i64).collect();
                if let Some(j) = b1.iter().find(|j| **j >= c.w as i64 && b2.contains(j)) {
                    let t1: Vec<&i64> = b1.iter().filter(|b| *b > j).collect();
                    let t2: Vec<&i64> = b2.iter().filter(|b| *b > j).collect();
                    if t1 != t2 {
                        println!("WITNESS {{\"kind\":\"C10\",\"config\":\"{:?}\",\"prefix1\":{:?},\"prefix2\":{:?},\"common_len\":{},\"common_first_bytes\":{:?},\"common_boundary\":{},\"later_boundaries_1\":{:?},\"later_boundaries_2\":{:?},\"note\":\"random streams from the fixed seed 0x0c100c1077771357\"}}", c, p1, p2, s.len(), &s[..32], j, &t1[..t1.len().min(8)], &t2[..t2.len().min(8)]);
                        panic!("boundaries after a common boundary differ");
                    }
                }
                cases += 1;
            }
        }
    }
    println!("COMPANION-OK cases={}", cases);
}
