// Bounded native companion for C02 / C03 / C06 / C13 (NOT a proof; listed under "bounded"): the clone output and the in-place
// planner + executor driven through the public library API (ChunkIndex, CloneOutput, VerifiedChunk) over an instrumented
// in-memory output that records every read and every write.  It stands for the code no contract can hold: the in-place
// planner (ChunkIndex::reorder_ops / build_reorder_ops: closure pipelines over HashMap/HashSet/BTreeMap) and the iterator
// plumbing of strip_chunks_already_in_place; the executor and the clone index themselves are under contract (u11_cloneindex).
//
// A scenario is (chunk alphabet with sizes, source = sequence of chunk ids, prior output = sequence of chunk ids and junk
// segments, seeds = sequences of chunk ids, hash length).  The flow is clone_archive's: source index, scan of the prior output
// (every chunk of the alphabet found at its segment), reorder_in_place, seeds fed in order, the rest "fetched" (each descriptor
// whose hash the clone index still contains, like Archive::chunk_stream), output cut to the source length.
// Judged against the property statements:
//   C03/C02  final output == source, whatever the prior output and the seeds
//   C13      every write is one source chunk's bytes at one of its source offsets; no offset written twice; offsets the scan
//            found already holding the right chunk are never written; nothing written at or beyond the source length
//   C06      the chunks fetched are exactly the source chunks found neither in the prior output nor in a seed, each once
//   C05      (c05_crash_and_rerun) the write log of a run is cut after k writes (the k-th optionally torn); re-running in place
//            on what is left completes to exactly the source
// Bounds: see each test.  Random parts are drawn from VERIF_SEED.
use std::collections::{BTreeMap, BTreeSet};
use std::io::SeekFrom;
use std::pin::Pin;
use std::task::{Context, Poll};

use bitar::{Chunk, ChunkIndex, CloneOutput, VerifiedChunk};
use tokio::io::{AsyncRead, AsyncSeek, AsyncWrite, ReadBuf};

fn witness(kind: &str, what: &str, detail: String) -> ! {
    println!("WITNESS {{\"kind\":\"{}\",\"what\":\"{}\",\"detail\":{:?}}}", kind, what, detail);
    panic!("{}: {}", kind, what);
}
struct Rng(u64);
impl Rng {
    fn next(&mut self) -> u64 { self.0 ^= self.0 << 13; self.0 ^= self.0 >> 7; self.0 ^= self.0 << 17; self.0 }
    fn below(&mut self, n: u64) -> u64 { self.next() % n }
}
fn seed() -> u64 { std::env::var("VERIF_SEED").ok().and_then(|s| s.parse::<u64>().ok()).unwrap_or(1).wrapping_mul(0x9E3779B97F4A7C15) | 1 }
fn deep() -> bool { std::env::var("VERIF_COMPANION_DEEP").is_ok() }

// ---------------------------------------------------------------- instrumented output
#[derive(Default)]
struct RecOut { data: Vec<u8>, pos: u64, seek_target: Option<u64>, writes: Vec<(u64, Vec<u8>)>, write_limit: Option<usize>,
               reads: usize, fail_read: Option<usize> /* the k-th poll_read (0-based) fails */,
               cap: usize /* max bytes accepted per poll_write (0 = no cap): an AsyncWrite may take only part of a buffer */ }
impl AsyncRead for RecOut {
    fn poll_read(mut self: Pin<&mut Self>, _cx: &mut Context<'_>, buf: &mut ReadBuf<'_>) -> Poll<std::io::Result<()>> {
        let k = self.reads;
        self.reads += 1;
        if self.fail_read == Some(k) { return Poll::Ready(Err(std::io::ErrorKind::Other.into())); }
        let p = (self.pos as usize).min(self.data.len());
        let k = (self.data.len() - p).min(buf.remaining());
        buf.put_slice(&self.data[p..p + k]);
        self.pos += k as u64;
        Poll::Ready(Ok(()))
    }
}
impl AsyncWrite for RecOut {
    fn poll_write(mut self: Pin<&mut Self>, _cx: &mut Context<'_>, buf: &[u8]) -> Poll<std::io::Result<usize>> {
        if let Some(l) = self.write_limit { if self.writes.len() >= l { return Poll::Ready(Err(std::io::ErrorKind::Other.into())); } }
        let buf = if self.cap > 0 && buf.len() > self.cap { &buf[..self.cap] } else { buf };
        let p = self.pos as usize;
        if self.data.len() < p + buf.len() { self.data.resize(p + buf.len(), 0); }
        self.data[p..p + buf.len()].copy_from_slice(buf);
        let at = self.pos;
        self.writes.push((at, buf.to_vec()));
        self.pos += buf.len() as u64;
        Poll::Ready(Ok(buf.len()))
    }
    fn poll_flush(self: Pin<&mut Self>, _cx: &mut Context<'_>) -> Poll<std::io::Result<()>> { Poll::Ready(Ok(())) }
    fn poll_shutdown(self: Pin<&mut Self>, _cx: &mut Context<'_>) -> Poll<std::io::Result<()>> { Poll::Ready(Ok(())) }
}
impl AsyncSeek for RecOut {
    fn start_seek(mut self: Pin<&mut Self>, position: SeekFrom) -> std::io::Result<()> {
        match position {
            SeekFrom::Start(p) => { self.seek_target = Some(p); Ok(()) }
            SeekFrom::End(d) => { let e = self.data.len() as i64 + d; self.seek_target = Some(e.max(0) as u64); Ok(()) }
            SeekFrom::Current(d) => { let e = self.pos as i64 + d; self.seek_target = Some(e.max(0) as u64); Ok(()) }
        }
    }
    fn poll_complete(mut self: Pin<&mut Self>, _cx: &mut Context<'_>) -> Poll<std::io::Result<u64>> {
        if let Some(t) = self.seek_target.take() { self.pos = t; }
        Poll::Ready(Ok(self.pos))
    }
}

// ---------------------------------------------------------------- scenarios
#[derive(Clone, Debug)]
struct Scenario {
    sizes: Vec<usize>,          // chunk id -> size; content of chunk i is CONTENT[i] repeated/derived
    source: Vec<usize>,         // chunk ids
    prior: Vec<Seg>,            // prior output
    seeds: Vec<Vec<usize>>,     // chunk ids per seed (ids >= sizes.len() are chunks unrelated to the source alphabet)
    hash_len: usize,
    cap: usize,                 // the output accepts at most this many bytes per poll_write (0 = unlimited)
}
#[derive(Clone, Copy, Debug, PartialEq)]
enum Seg { Chunk(usize), Junk(usize) }

fn chunk_bytes(id: usize, size: usize) -> Vec<u8> {
    // distinct content per id; no chunk's bytes occur inside another chunk or in junk (junk is 0xEE)
    (0..size).map(|i| (0x10 + id as u8 * 0x11).wrapping_add((i as u8) & 0x0f)).collect()
}
fn verified(id: usize, size: usize) -> VerifiedChunk { VerifiedChunk::new(Chunk::from(chunk_bytes(id, size))) }

struct Outcome { writes: Vec<(u64, Vec<u8>)>, data: Vec<u8>, fetched: Vec<usize>, err: Option<String>, reads: usize }

/// clone_archive's flow over the library API.  `write_limit`: the output fails every write after that many (crash model).
fn run_clone(sc: &Scenario, prior_bytes: Vec<u8>, scan: &[(usize, u64)], write_limit: Option<usize>) -> Outcome {
    run_clone_f(sc, prior_bytes, scan, write_limit, None)
}
fn run_clone_f(sc: &Scenario, prior_bytes: Vec<u8>, scan: &[(usize, u64)], write_limit: Option<usize>, fail_read: Option<usize>) -> Outcome {
    let rt = tokio::runtime::Builder::new_current_thread().build().unwrap();
    rt.block_on(async {
        let size_of = |id: usize| if id < sc.sizes.len() { sc.sizes[id] } else { 3 + id };
        // source index (Archive::build_source_index)
        let mut clone_index = ChunkIndex::new_empty(sc.hash_len);
        let mut off = 0u64;
        for &id in &sc.source {
            clone_index.add_chunk(verified(id, size_of(id)).hash().clone(), size_of(id), &[off]);
            off += size_of(id) as u64;
        }
        let src_len = off;
        // scan of the prior output (chunk_index_from_readable)
        let mut output_index = ChunkIndex::new_empty(sc.hash_len);
        for &(id, o) in scan {
            output_index.add_chunk(verified(id, size_of(id)).hash().clone(), size_of(id), &[o]);
        }
        let out = RecOut { data: prior_bytes, write_limit, fail_read, cap: sc.cap, ..Default::default() };
        let mut output = CloneOutput::new(out, clone_index);
        let mut err = None;
        let mut fetched = vec![];
        'flow: {
            if let Err(e) = output.reorder_in_place(output_index).await { err = Some(format!("reorder_in_place: {}", e)); break 'flow; }
            for s in &sc.seeds {
                for &id in s {
                    if let Err(e) = output.feed(&verified(id, size_of(id))).await { err = Some(format!("feed(seed): {}", e)); break 'flow; }
                }
            }
            // the archive: descriptors = unique source chunks in order of first occurrence; fetch those the index still contains
            let mut seen = BTreeSet::new();
            let descriptors: Vec<usize> = sc.source.iter().copied().filter(|id| seen.insert(*id)).collect();
            let wanted: Vec<usize> = descriptors.iter().copied()
                .filter(|&id| output.chunks().contains(verified(id, size_of(id)).hash())).collect();
            for id in wanted {
                fetched.push(id);
                if let Err(e) = output.feed(&verified(id, size_of(id))).await { err = Some(format!("feed(archive): {}", e)); break 'flow; }
            }
            if !output.is_empty() { err = Some(format!("{} chunks left in the clone index after fetching", output.len())); }
        }
        let mut out = output.into_inner();
        if err.is_none() { out.data.resize(src_len as usize, 0); }   // set_len(total_source_size)
        Outcome { writes: out.writes, data: out.data, fetched, err, reads: out.reads }
    })
}

fn layout(sc: &Scenario) -> (Vec<u8>, Vec<(usize, u64)>, Vec<u8>) {
    let mut prior = vec![];
    let mut scan = vec![];
    for seg in &sc.prior {
        match *seg {
            Seg::Chunk(id) => { scan.push((id, prior.len() as u64)); prior.extend(chunk_bytes(id, sc.sizes[id])); }
            Seg::Junk(n) => prior.extend(std::iter::repeat(0xEEu8).take(n)),
        }
    }
    let mut source = vec![];
    for &id in &sc.source { source.extend(chunk_bytes(id, sc.sizes[id])); }
    (prior, scan, source)
}

fn judge(sc: &Scenario) {
    let found = judge_all(sc);
    if !found.is_empty() {
        for (k, w, det) in &found[1..] { println!("WITNESS {{\"kind\":\"{}\",\"what\":\"{}\",\"detail\":{:?}}}", k, w, det); }
        let (k, w, det) = found[0].clone();
        witness(k, w, det);
    }
}
/// every judgement of one scenario that fails (kind, what, detail); empty when the scenario is fine
fn judge_all(sc: &Scenario) -> Vec<(&'static str, &'static str, String)> {
    let (prior, scan, source) = layout(sc);
    let o = run_clone(sc, prior.clone(), &scan, None);
    let d = || format!("{:?}", sc);
    let mut found: Vec<(&'static str, &'static str, String)> = vec![];
    let seeded = sc.seeds.iter().any(|s| !s.is_empty());
    if let Some(e) = &o.err {
        found.push(("C03", "a clone over an in-memory output failed", format!("{} :: {}", e, d())));
        if seeded { found.push(("C02", "a clone with seeds over an in-memory output failed", format!("{} :: {}", e, d()))); }
    } else if o.data != source {
        let det = format!("got {:02x?} want {:02x?} :: {}", o.data, source, d());
        if !sc.prior.is_empty() { found.push(("C03", "the output differs from the source after a successful in-place clone", det.clone())); }
        if seeded { found.push(("C02", "the output differs from the source after a successful clone with seeds", det.clone())); }
        if sc.prior.is_empty() && !seeded { found.push(("C03", "the output differs from the source after a successful clone", det)); }
    }
    // ---- C13: the write discipline
    let mut offsets_of: BTreeMap<usize, Vec<u64>> = BTreeMap::new();
    let mut off = 0u64;
    for &id in &sc.source { offsets_of.entry(id).or_default().push(off); off += sc.sizes[id] as u64; }
    let src_len = off;
    let in_place: BTreeSet<u64> = scan.iter().filter(|(id, o)| offsets_of.get(id).map_or(false, |v| v.contains(o))).map(|&(_, o)| o).collect();
    let mut written = BTreeSet::new();
    for (at, bytes) in o.writes.iter().filter(|_| sc.cap == 0) {
        let ok = offsets_of.iter().any(|(&id, offs)| offs.contains(at) && *bytes == chunk_bytes(id, sc.sizes[id]));
        if !ok { found.push(("C13", "a write is not one source chunk's bytes at one of its source offsets", format!("write at {} of {:02x?} :: {}", at, bytes, d()))); break; }
        if at + bytes.len() as u64 > src_len { found.push(("C13", "a write reaches beyond the source length", format!("write at {} len {} :: {}", at, bytes.len(), d()))); break; }
        if !written.insert(*at) { found.push(("C13", "a location is written more than once", format!("offset {} :: {}", at, d()))); break; }
        if in_place.contains(at) { found.push(("C13", "a location already holding the right chunk is written", format!("offset {} :: {}", at, d()))); break; }
    }
    // ---- C06: what is fetched
    if o.err.is_none() {
        let mut available: BTreeSet<usize> = scan.iter().map(|&(id, _)| id).collect();
        for s in &sc.seeds { available.extend(s.iter().copied()); }
        let mut seen = BTreeSet::new();
        let expect: Vec<usize> = sc.source.iter().copied().filter(|id| seen.insert(*id)).filter(|id| !available.contains(id)).collect();
        if o.fetched != expect {
            found.push(("C06", "the chunks fetched from the archive are not exactly the missing ones, each once", format!("fetched {:?} expected {:?} :: {}", o.fetched, expect, d())));
        }
    }
    found
}

fn segs(k: usize, junk: &[usize]) -> Vec<Seg> {
    let mut v: Vec<Seg> = (0..k).map(Seg::Chunk).collect();
    v.extend(junk.iter().map(|&n| Seg::Junk(n)));
    v
}
fn sequences<T: Copy>(alphabet: &[T], max_len: usize) -> Vec<Vec<T>> {
    let mut out = vec![vec![]];
    let mut level = vec![vec![]];
    for _ in 0..max_len {
        let mut next = vec![];
        for s in &level { for &a in alphabet { let mut t: Vec<T> = s.clone(); t.push(a); next.push(t); } }
        out.extend(next.iter().cloned());
        level = next;
    }
    out
}

/// exhaustive: all sources of 1..=3 chunks over 3 chunk identities x all prior outputs of 0..=4 segments over those chunks and
/// two junk sizes, for 3 size assignments (equal / different / one larger than two others together); no seeds; hash length 64
#[test]
fn c03_in_place_exhaustive() {
    let stride: usize = std::env::var("VERIF_COMPANION_STRIDE").ok().and_then(|s| s.parse().ok()).unwrap_or(1);
    let mut n = 0usize;
    let mut cases = 0usize;
    for sizes in [vec![4usize, 4, 4], vec![2, 3, 5], vec![7, 2, 3]] {
        let max_src = if deep() { 4 } else { 3 };
        for source in sequences(&[0usize, 1, 2], max_src).into_iter().filter(|s| !s.is_empty()) {
            for prior in sequences(&segs(3, &[1, 3]), 4) {
                n += 1;
                if n % stride != 0 { continue; }
                judge(&Scenario { sizes: sizes.clone(), source: source.clone(), prior, seeds: vec![], hash_len: 64, cap: 0 });
                cases += 1;
            }
        }
    }
    println!("COMPANION-OK cases={}", cases);
}

/// seeds: all sources of 1..=3 chunks over 3 identities x seed lists (in order) drawn from {the chunks, one unrelated chunk} x
/// prior output absent / a few layouts; hash lengths 4 and 64
#[test]
fn c02_seeds_exhaustive() {
    let mut cases = 0usize;
    for hash_len in [64usize, 4] {
        for sizes in [vec![4usize, 4, 4], vec![2, 3, 5]] {
            for source in sequences(&[0usize, 1, 2], 3).into_iter().filter(|s| !s.is_empty()) {
                for seed_a in sequences(&[0usize, 1, 2, 7], 2) {
                    for seed_b in [vec![], vec![2usize, 0], vec![7, 1]] {
                        for prior in [vec![], vec![Seg::Chunk(1), Seg::Junk(3), Seg::Chunk(0)], vec![Seg::Junk(2), Seg::Chunk(2), Seg::Chunk(2)]] {
                            judge(&Scenario { sizes: sizes.clone(), source: source.clone(), prior, seeds: vec![seed_a.clone(), seed_b.clone()], hash_len, cap: 0 });
                            cases += 1;
                        }
                    }
                }
            }
        }
    }
    println!("COMPANION-OK cases={}", cases);
}

/// repeats: all sources of 4..=5 chunks over 3 chunk identities (runs of a repeated chunk, a chunk wanted at several separated
/// offsets) x seeds {none, [2], [1, 2], [2, 0]} x two size assignments, onto a new output and onto one prior layout; hash length 64.
/// (Added after seeded change C02k-2 -- per-run writes with a stale repeat count -- needed a source of >= 4 chunks to manifest.)
#[test]
fn c02_repeats_exhaustive() {
    let mut cases = 0usize;
    let mut kinds: Vec<&'static str> = vec![];
    for sizes in [vec![4usize, 4, 4], vec![2, 3, 5]] {
        for source in sequences(&[0usize, 1, 2], 5).into_iter().filter(|s| s.len() >= 4) {
            for seed_a in [vec![], vec![2usize], vec![1, 2], vec![2, 0]] {
                for prior in [vec![], vec![Seg::Chunk(1), Seg::Junk(3), Seg::Chunk(0), Seg::Chunk(0)]] {
                    // the whole grid is judged: the first failing scenario of each kind is reported (a change may break the write
                    // discipline on one layout and the final content only on a later one)
                    for (k, w, det) in judge_all(&Scenario { sizes: sizes.clone(), source: source.clone(), prior, seeds: vec![seed_a.clone()], hash_len: 64, cap: 0 }) {
                        if !kinds.contains(&k) {
                            kinds.push(k);
                            println!("WITNESS {{\"kind\":\"{}\",\"what\":\"{}\",\"detail\":{:?}}}", k, w, det);
                        }
                    }
                    cases += 1;
                }
            }
        }
    }
    if !kinds.is_empty() { panic!("failing scenarios of kinds {:?}", kinds); }
    println!("COMPANION-OK cases={}", cases);
}

/// random larger layouts: 4..=8 chunk identities with random sizes 1..=9, sources of up to 12 chunks with repeats, prior outputs
/// of up to 14 segments (chunks, repeated chunks, junk), 0..=2 seeds
#[test]
fn c03_random_layouts() {
    let mut rng = Rng(seed());
    let budget: usize = std::env::var("VERIF_COMPANION_CASES").ok().and_then(|s| s.parse().ok()).unwrap_or(if deep() { 400_000 } else { 20_000 });
    for _ in 0..budget {
        let k = 4 + rng.below(5) as usize;
        let sizes: Vec<usize> = (0..k).map(|_| 1 + rng.below(9) as usize).collect();
        let source: Vec<usize> = (0..1 + rng.below(12)).map(|_| rng.below(k as u64) as usize).collect();
        let prior: Vec<Seg> = (0..rng.below(15)).map(|_| if rng.below(5) == 0 { Seg::Junk(1 + rng.below(6) as usize) } else { Seg::Chunk(rng.below(k as u64) as usize) }).collect();
        let seeds: Vec<Vec<usize>> = (0..rng.below(3)).map(|_| (0..rng.below(4)).map(|_| rng.below(k as u64) as usize).collect()).collect();
        let hash_len = [64usize, 16, 4][rng.below(3) as usize];
        let cap = if rng.below(4) == 0 { 1 + rng.below(4) as usize } else { 0 };
        judge(&Scenario { sizes, source, prior, seeds, hash_len, cap });
    }
    println!("COMPANION-OK cases={}", budget);
}

/// crash and re-run: for a set of layouts, the run is interrupted after k writes (every k), the k-th write optionally torn after
/// every byte prefix; the interrupted run must report an error, and re-running in place on what is left yields exactly the source
#[test]
fn c05_crash_and_rerun() {
    let mut cases = 0usize;
    let layouts: Vec<(Vec<usize>, Vec<usize>, Vec<Seg>)> = vec![
        (vec![4, 4, 4], vec![0, 1, 2], vec![Seg::Chunk(1), Seg::Chunk(0), Seg::Junk(3)]),
        (vec![2, 3, 5], vec![2, 0, 1, 0], vec![Seg::Chunk(0), Seg::Chunk(2), Seg::Junk(1), Seg::Chunk(1)]),
        (vec![7, 2, 3], vec![1, 2, 0], vec![Seg::Chunk(0), Seg::Chunk(1), Seg::Chunk(2)]),
        (vec![3, 3, 3], vec![0, 0, 1, 2], vec![Seg::Junk(2), Seg::Chunk(2), Seg::Chunk(0)]),
        (vec![5, 1, 2], vec![1, 0, 2, 1], vec![Seg::Chunk(2), Seg::Chunk(2), Seg::Chunk(0), Seg::Chunk(1)]),
    ];
    for (sizes, source, prior) in layouts {
        let sc = Scenario { sizes, source, prior, seeds: vec![], hash_len: 64, cap: 0 };
        let (prior_bytes, scan, source_bytes) = layout(&sc);
        let full = run_clone(&sc, prior_bytes.clone(), &scan, None);
        if full.err.is_some() || full.data != source_bytes { witness("C03", "uninterrupted run is wrong", format!("{:?}", sc)); }
        // a failing read of the output (the executor reads chunks it moves or buffers): the run must not end in success with a
        // wrong output
        for k in 0..full.reads {
            let r = run_clone_f(&sc, prior_bytes.clone(), &scan, None, Some(k));
            if r.err.is_none() && r.data != source_bytes {
                witness("C05", "a run with a failed read of the output reported success and the output differs from the source", format!("read {} failed :: {:?}", k, sc));
            }
            cases += 1;
        }
        for k in 0..full.writes.len() {
            let crashed = run_clone(&sc, prior_bytes.clone(), &scan, Some(k));
            if crashed.err.is_none() { witness("C05", "a run whose write failed reported success", format!("write limit {} :: {:?}", k, sc)); }
            // the state left behind, with the failed write torn after every prefix
            let (at, bytes) = &full.writes[k.min(full.writes.len() - 1)];
            for torn in 0..=bytes.len() {
                let mut left = crashed.data.clone();
                if crashed.writes.len() == k && torn > 0 {
                    let p = *at as usize;
                    if left.len() < p + torn { left.resize(p + torn, 0); }
                    left[p..p + torn].copy_from_slice(&bytes[..torn]);
                }
                // re-scan what is left: a chunk is found where its exact bytes lie at a segment boundary of the original layout or
                // of the source layout (what a content-defined re-scan can find at best and at least: verified by content)
                let mut rescan = vec![];
                let mut cands: BTreeSet<u64> = scan.iter().map(|&(_, o)| o).collect();
                let mut off = 0u64;
                for &id in &sc.source { cands.insert(off); off += sc.sizes[id] as u64; }
                let mut covered = 0u64;
                for &c in &cands {
                    if c < covered { continue; }
                    for id in 0..sc.sizes.len() {
                        let b = chunk_bytes(id, sc.sizes[id]);
                        let p = c as usize;
                        if p + b.len() <= left.len() && left[p..p + b.len()] == b[..] { rescan.push((id, c)); covered = c + b.len() as u64; break; }
                    }
                }
                let again = run_clone(&sc, left, &rescan, None);
                if again.err.is_some() || again.data != source_bytes {
                    witness("C05", "re-running in place after an interrupted clone does not yield the source", format!("crash before write {} torn after {} bytes :: err {:?} got {:02x?} :: {:?}", k, torn, again.err, again.data, sc));
                }
                cases += 1;
            }
        }
    }
    println!("COMPANION-OK cases={}", cases);
}

/// the lookup the clone output uses (ChunkIndex::contains / remove through the truncated `dyn HashSumKey`), against its meaning:
/// a hash matches an entry iff, truncated to the index's hash length, it is byte-for-byte the entry's key -- in particular a
/// hash SHORTER than the index's hash length (a chunk verified against an archive with a shorter hash length) never matches an
/// entry that merely shares its prefix, and a longer one matches exactly its truncation.  All hash lengths 4..=64 x lookup
/// lengths 0..=64 x 3 chunks.
#[test]
fn c02_lookup_is_exact_on_the_truncated_key() {
    use bitar::HashSum;
    let mut cases = 0usize;
    for id in 0..3usize {
        let full: Vec<u8> = verified(id, 5 + id).hash().slice().to_vec();
        let other: Vec<u8> = verified(id + 3, 9).hash().slice().to_vec();
        for hl in 4..=64usize {
            if full[..hl] == other[..hl] { continue; }     // the two chunks would share a key at this length
            for ll in 0..=64usize {
                let mut index = ChunkIndex::new_empty(hl);
                index.add_chunk(HashSum::from(&full[..]), 5 + id, &[0, 100]);
                index.add_chunk(HashSum::from(&other[..]), 9, &[50]);
                let probe = HashSum::from(&full[..ll]);
                let expect = ll >= hl;     // trunc(probe, hl) == full[..hl]  <=>  the probe carries at least hl bytes of the hash
                let d = || format!("index hash length {} lookup with the first {} bytes of the chunk's hash", hl, ll);
                if index.contains(&probe) != expect {
                    witness("C02", "ChunkIndex::contains matches a hash that is not the entry's key (or misses the key)", d());
                }
                let r = index.remove(&probe);
                if r.is_some() != expect || (expect && r.as_ref().map(|l| l.offsets().to_vec()) != Some(vec![0, 100])) {
                    witness("C02", "ChunkIndex::remove returns an entry for a hash that is not its key (or misses the key)", d());
                }
                if index.len() != if expect { 1 } else { 2 } { witness("C02", "ChunkIndex::remove changed other entries", d()); }
                cases += 1;
            }
        }
    }
    println!("COMPANION-OK cases={}", cases);
}

/// the index keeps, per chunk, the SET of its offsets in ascending order whatever the order and multiplicity in which they are
/// added (ChunkIndex::add_chunk / ChunkLocation::add_offset_sorted through the public API): random add sequences
#[test]
fn c13_offsets_are_a_sorted_set() {
    let mut rng = Rng(seed() ^ 0x1313);
    let mut cases = 0usize;
    for _ in 0..4000 {
        let mut index = ChunkIndex::new_empty(64);
        let mut model: BTreeMap<usize, BTreeSet<u64>> = BTreeMap::new();
        for _ in 0..1 + rng.below(6) {
            let id = rng.below(3) as usize;
            let offs: Vec<u64> = (0..rng.below(5)).map(|_| rng.below(6) * 10).collect();
            index.add_chunk(verified(id, 4).hash().clone(), 4, &offs);
            model.entry(id).or_default().extend(offs.iter().copied());
        }
        for (id, set) in &model {
            let got: Option<Vec<u64>> = index.offsets(verified(*id, 4).hash()).map(|i| i.collect());
            let want: Vec<u64> = set.iter().copied().collect();
            if got != Some(want.clone()) {
                witness("C13", "the offsets recorded for a chunk are not the ascending set of the offsets added", format!("chunk {} got {:?} want {:?}", id, got, want));
            }
        }
        cases += 1;
    }
    println!("COMPANION-OK cases={}", cases);
}
