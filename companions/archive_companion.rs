// Bounded native companion for the code the verifiers cannot reach (async reader state machines,
// Archive::try_init / chunk_stream, the HTTP request loop): NOT a proof, listed under "bounded".
// It drives the real library through its public API against references written from the property statements:
//   c17_layouts            any format-conforming layout (independent encoder) clones to the source, locally and over HTTP
//   c07_range_requests     Range requests == maximal runs of adjacent wanted chunks, in fetch order
//   c04_corruptions        bit flips / truncations / short HTTP bodies: clone fails or yields exactly the source
//   c15_crafted_archives   header-valid archives with mutated dictionary fields, tampered size fields and truncations:
//                          open / inspect / chunk never panics or hangs
//   c15_http_crafted_runs  header-valid archives declaring long runs of huge adjacent chunks, cloned over HTTP from a server
//                          that only has the header: an error, never a panic, an abort (allocation of the declared run) or a hang
// Prints `WITNESS <json>` and fails on the first disagreement.
#![cfg(feature = "compress")]
use std::io::Cursor;
use std::sync::{Arc, Mutex};
use std::time::Duration;

use bitar::archive_reader::{ArchiveReader, HttpReader, IoReader};
use bitar::{chunk_dictionary as dict, Archive, CloneOutput, Compression};
use blake2::{Blake2b512, Digest};
use futures_util::StreamExt;
use http_body_util::Full;
use hyper::{server::conn::http1, service::service_fn};
use hyper_util::rt::TokioIo;
use tokio::net::TcpListener;

// ------------------------------------------------------------------------------------------ helpers
struct Rng(u64);
impl Rng {
    fn next(&mut self) -> u64 { self.0 ^= self.0 << 13; self.0 ^= self.0 >> 7; self.0 ^= self.0 << 17; self.0 }
    fn below(&mut self, n: u64) -> u64 { self.next() % n }
}

fn b2(data: &[u8]) -> Vec<u8> {
    let mut h = Blake2b512::new();
    h.update(data);
    h.finalize().to_vec()
}

fn witness(kind: &str, what: &str, detail: String) {
    println!("WITNESS {{\"kind\":\"{}\",\"what\":\"{}\",\"detail\":{:?}}}", kind, what, detail);
    // VERIF_COMPANION_ALL=1: list every disagreement instead of stopping at the first
    if std::env::var("VERIF_COMPANION_ALL").is_err() {
        panic!("{}: {}", kind, what);
    }
}

#[derive(Clone, Debug)]
struct Layout {
    legacy_magic: bool,
    slack: usize,            // bytes between header end and chunk data start
    order: Vec<usize>,       // order in which unique chunks are placed in the data area
    gap: usize,              // padding after each stored chunk
    compress: Vec<bool>,     // per unique chunk: try to store compressed (only if strictly smaller)
    hash_len: usize,
}

struct Built { bytes: Vec<u8>, source: Vec<u8>, header_len: usize, want: Want }

/// what the accessors of an opened `Archive` must report, computed from the encoder's inputs only
#[derive(Clone, Debug, Default, PartialEq)]
struct Want {
    total_chunks: usize,
    unique_chunks: usize,
    compressed_size: u64,
    chunk_data_offset: u64,
    descriptors: Vec<(Vec<u8>, usize, u64, u32)>,   // checksum, stored size, absolute offset, source size
    total_source_size: u64,
    source_checksum: Vec<u8>,
    header_checksum: Vec<u8>,
    header_size: usize,
    chunk_hash_length: usize,
    compression: Option<(String, u32)>,
    version: String,
    metadata: Vec<(String, Vec<u8>)>,
    source_chunks: Vec<(u64, usize)>,               // (source offset, descriptor index) in rebuild order
}

fn observed<R>(a: &Archive<R>) -> Want {
    let descs = a.chunk_descriptors();
    let mut metadata: Vec<(String, Vec<u8>)> = a.metadata_iter().map(|(k, v)| (k.to_string(), v.to_vec())).collect();
    metadata.sort();
    Want {
        total_chunks: a.total_chunks(),
        unique_chunks: a.unique_chunks(),
        compressed_size: a.compressed_size(),
        chunk_data_offset: a.chunk_data_offset(),
        descriptors: descs.iter().map(|d| (d.checksum.slice().to_vec(), d.archive_size, d.archive_offset, d.source_size)).collect(),
        total_source_size: a.total_source_size(),
        source_checksum: a.source_checksum().slice().to_vec(),
        header_checksum: a.header_checksum().slice().to_vec(),
        header_size: a.header_size(),
        chunk_hash_length: a.chunk_hash_length(),
        // the fields of Compression are crate-private: read algorithm and level off its Debug text
        compression: a.chunk_compression().map(|c| {
            let t = format!("{:?}", c);
            let algo = ["Brotli", "Lzma", "Zstd"].iter().find(|n| t.contains(*n)).map(|n| n.to_string()).unwrap_or(t.clone());
            let digits: String = t.chars().rev().skip_while(|ch| !ch.is_ascii_digit()).take_while(|ch| ch.is_ascii_digit()).collect::<String>().chars().rev().collect();
            (algo, digits.parse().unwrap_or(u32::MAX - 1))
        }),
        version: a.built_with_version().to_string(),
        metadata,
        source_chunks: a.iter_source_chunks().map(|(o, d)| (o, descs.iter().position(|x| std::ptr::eq(x, d)).unwrap_or(usize::MAX))).collect(),
    }
}

/// Independent encoder, written from header.rs' table and chunk_dictionary.proto.
/// `chunks`: the source as a list of chunk byte strings (duplicates allowed).
fn encode(chunks: &[Vec<u8>], lay: &Layout, params: dict::ChunkerParameters, brotli: bool) -> Built {
    encode_ext(chunks, lay, params, brotli, 6, false)
}

/// `level`: the compression level recorded in the dictionary (informational for a reader: brotli streams are
/// self-describing); `unknown_fields`: append dictionary fields this schema version does not know (protobuf
/// readers must skip them) and a metadata entry.
fn encode_ext(chunks: &[Vec<u8>], lay: &Layout, params: dict::ChunkerParameters, brotli: bool, level: u32, unknown_fields: bool) -> Built {
    let source: Vec<u8> = chunks.iter().flat_map(|c| c.iter().copied()).collect();
    // unique chunks in first-occurrence order
    let mut uniq: Vec<Vec<u8>> = vec![];
    let mut rebuild = vec![];
    for c in chunks {
        let idx = match uniq.iter().position(|u| u == c) {
            Some(i) => i,
            None => { uniq.push(c.clone()); uniq.len() - 1 }
        };
        rebuild.push(idx as u32);
    }
    // stored form per unique chunk
    let stored: Vec<Vec<u8>> = uniq.iter().enumerate().map(|(i, c)| {
        if brotli && lay.compress.get(i).copied().unwrap_or(false) {
            let z = bitar::Chunk::from(c.clone()).compress(Some(Compression::brotli(6).unwrap())).unwrap();
            if z.len() < c.len() { z.data().to_vec() } else { c.clone() }
        } else { c.clone() }
    }).collect();
    // placement
    let mut data_area: Vec<u8> = vec![];
    let mut offsets = vec![0u64; uniq.len()];
    let order: Vec<usize> = if lay.order.len() == uniq.len() { lay.order.clone() } else { (0..uniq.len()).collect() };
    for &i in &order {
        offsets[i] = data_area.len() as u64;
        data_area.extend(&stored[i]);
        data_area.extend(std::iter::repeat(0xEEu8).take(lay.gap));
    }
    let descriptors: Vec<dict::ChunkDescriptor> = uniq.iter().enumerate().map(|(i, c)| dict::ChunkDescriptor {
        checksum: b2(c)[..lay.hash_len].to_vec(),
        archive_size: stored[i].len() as u32,
        archive_offset: offsets[i],
        source_size: c.len() as u32,
    }).collect();
    let mut p = params;
    p.chunk_hash_length = lay.hash_len as u32;
    let mut metadata = std::collections::BTreeMap::new();
    if unknown_fields { metadata.insert("verif-key".to_string(), vec![0u8, 255, 7]); metadata.insert(String::new(), vec![]); }
    let d = dict::ChunkDictionary {
        application_version: "companion".into(),
        source_checksum: b2(&source),
        source_total_size: source.len() as u64,
        chunker_params: Some(p),
        chunk_compression: Some(dict::ChunkCompression { compression: if brotli { 3 } else { 0 }, compression_level: if brotli { level } else { 0 } }),
        rebuild_order: rebuild.clone(),
        chunk_descriptors: descriptors.clone(),
        metadata: metadata.clone(),
    };
    // header written from the table in header.rs (not with header::build): magic | dictionary size u64 le |
    // dictionary | chunk data offset u64 le | blake2b-512 of everything before
    let mut dict_buf = prost::Message::encode_to_vec(&d);
    if unknown_fields {
        dict_buf.extend([0xf8, 0x06, 0x2a]);                       // field 111, varint 42
        dict_buf.extend([0x82, 0x07, 0x03, b'x', b'y', b'z']);     // field 112, length-delimited "xyz"
        dict_buf.extend([0x8d, 0x07, 1, 2, 3, 4]);                 // field 113, fixed32
    }
    let header_len = 6 + 8 + dict_buf.len() + 8 + 64;
    let mut header: Vec<u8> = if lay.legacy_magic { b"\0BITA1".to_vec() } else { b"BITA1\0".to_vec() };
    header.extend((dict_buf.len() as u64).to_le_bytes());
    header.extend(&dict_buf);
    header.extend(((header_len + lay.slack) as u64).to_le_bytes());
    let sum = b2(&header);
    header.extend(&sum);
    assert_eq!(header.len(), header_len);
    let chunk_data_offset = (header_len + lay.slack) as u64;
    let mut md: Vec<(String, Vec<u8>)> = metadata.into_iter().collect();
    md.sort();
    let mut source_chunks = vec![];
    { let mut off = 0u64; for &i in &rebuild { source_chunks.push((off, i as usize)); off += uniq[i as usize].len() as u64; } }
    let want = Want {
        total_chunks: chunks.len(),
        unique_chunks: uniq.len(),
        compressed_size: stored.iter().map(|s| s.len() as u64).sum(),
        chunk_data_offset,
        descriptors: descriptors.iter().map(|d| (d.checksum.clone(), d.archive_size as usize, chunk_data_offset + d.archive_offset, d.source_size)).collect(),
        total_source_size: source.len() as u64,
        source_checksum: b2(&source),
        header_checksum: sum,
        header_size: header_len,
        chunk_hash_length: lay.hash_len,
        compression: if brotli { Some(("Brotli".to_string(), level)) } else { None },
        version: "companion".to_string(),
        metadata: md,
        source_chunks,
    };
    let mut bytes = header;
    bytes.extend(std::iter::repeat(0xAAu8).take(lay.slack));
    bytes.extend(data_area);
    Built { bytes, source, header_len, want }
}

fn default_params() -> dict::ChunkerParameters {
    dict::ChunkerParameters { chunk_filter_bits: 0, min_chunk_size: 0, max_chunk_size: 64, rolling_hash_window_size: 0, chunk_hash_length: 64, chunking_algorithm: 2 }
}

/// the clone loop of the CLI (src/clone_cmd.rs) with an in-memory output
async fn clone_with<R>(reader: R) -> Result<Vec<u8>, String>
where R: ArchiveReader, R::Error: std::fmt::Debug {
    let mut archive = Archive::try_init(reader).await.map_err(|e| format!("open: {:?}", e))?;
    let index = archive.build_source_index();
    let mut output = CloneOutput::new(Cursor::new(Vec::<u8>::new()), index);
    {
        let mut stream = archive.chunk_stream(output.chunks());
        let mut items = vec![];
        while let Some(r) = stream.next().await { items.push(r); }
        drop(stream);
        for r in items {
            let compressed = r.map_err(|e| format!("read: {:?}", e))?;
            let verified = compressed.decompress().map_err(|e| format!("decompress: {:?}", e))?
                .verify().map_err(|e| format!("verify: {}", e))?;
            output.feed(&verified).await.map_err(|e| format!("write: {:?}", e))?;
        }
    }
    if !output.is_empty() { return Err(format!("{} chunks never delivered", output.len())); }
    let mut out = output.into_inner().into_inner();
    out.resize(archive.total_source_size() as usize, 0);
    Ok(out)
}

type RangeLog = Arc<Mutex<Vec<(u64, u64)>>>;
#[derive(Clone, Copy, PartialEq)]
enum Misbehave { No, CutAt(u64) }   // CutAt(p): bodies never extend beyond absolute archive position p

async fn serve(listener: TcpListener, data: Arc<Vec<u8>>, log: RangeLog, mis: Misbehave) {
    loop {
        let (stream, _) = match listener.accept().await { Ok(x) => x, Err(_) => return };
        let data = data.clone();
        let log = log.clone();
        tokio::spawn(async move {
            let _ = http1::Builder::new().serve_connection(TokioIo::new(stream), service_fn(move |req| {
                let range = req.headers().get("range").map(|v| v.to_str().unwrap().to_owned()).unwrap_or_default();
                let b: Vec<u64> = range.strip_prefix("bytes=").unwrap_or("0-0").split('-').map(|s| s.parse::<u64>().unwrap_or(0)).collect();
                log.lock().unwrap().push((b[0], b[1]));
                let mut end = (b[1] as usize).saturating_add(1).min(data.len());
                if let Misbehave::CutAt(p) = mis { end = end.min(p as usize); }
                let start = (b[0] as usize).min(end);
                let body = data[start..end].to_vec();
                async move { Ok::<_, hyper::Error>(hyper::Response::builder().status(206).body(Full::new(hyper::body::Bytes::from(body))).unwrap()) }
            })).await;
        });
    }
}

async fn http_reader_for(bytes: &[u8], mis: Misbehave) -> (HttpReader, RangeLog) {
    let log: RangeLog = Arc::new(Mutex::new(vec![]));
    let listener = TcpListener::bind("127.0.0.1:0").await.unwrap();
    let port = listener.local_addr().unwrap().port();
    tokio::spawn(serve(listener, Arc::new(bytes.to_vec()), log.clone(), mis));
    let url = reqwest::Url::parse(&format!("http://127.0.0.1:{}/a.cba", port)).unwrap();
    (HttpReader::from_url(url), log)
}

fn rt() -> tokio::runtime::Runtime { tokio::runtime::Builder::new_multi_thread().worker_threads(2).enable_all().build().unwrap() }

fn sample_chunks(rng: &mut Rng, n: usize) -> Vec<Vec<u8>> {
    // sizes all different; some compressible, some not; one duplicate
    let mut v: Vec<Vec<u8>> = (0..n).map(|i| {
        let len = 24 + 7 * i + rng.below(5) as usize;
        let noisy = i % 2 == 0;
        (0..len).map(|j| if noisy { rng.below(256) as u8 } else { (i as u8).wrapping_mul(3) ^ ((j / 9) as u8) }).collect()
    }).collect();
    if n >= 3 { let d = v[0].clone(); v.insert(2, d); }
    v
}

// ------------------------------------------------------------------------------------------ C17
#[test]
fn c17_layouts() {
    let rt = rt();
    let mut rng = Rng(0x51ed_270b_9f4a_7c15);
    let mut cases = 0;
    let deep = std::env::var("VERIF_COMPANION_DEEP").is_ok();
    for n in (if deep { vec![0usize, 1, 2, 4, 7] } else { vec![0usize, 1, 4] }) {
        let chunks = sample_chunks(&mut rng, n);
        let nu = { let mut u: Vec<&Vec<u8>> = vec![]; for c in &chunks { if !u.contains(&c) { u.push(c); } } u.len() };
        let orders: Vec<Vec<usize>> = vec![(0..nu).collect(), (0..nu).rev().collect(), { let mut o: Vec<usize> = (0..nu).collect(); if nu > 2 { o.swap(0, 2); o.swap(1, nu - 1); } o }];
        for legacy_magic in [false, true] {
            for slack in [0usize, 1, 37] {
                for order in &orders {
                    for gap in [0usize, 3] {
                        for (brotli, cm) in [(false, 0u32), (true, 0b0101), (true, 0b1111)] {
                            for hash_len in [4usize, 17, 64] {
                                let lay = Layout { legacy_magic, slack, order: order.clone(), gap, compress: (0..nu).map(|i| cm & (1 << i) != 0).collect(), hash_len };
                                let level = [6u32, 0, 12, u32::MAX, 1][cases % 5];
                                let built = encode_ext(&chunks, &lay, default_params(), brotli, level, cases % 3 == 1);
                                match rt.block_on(Archive::try_init(IoReader::new(Cursor::new(built.bytes.clone())))) {
                                    Ok(a) => {
                                        let got = observed(&a);
                                        if got != built.want {
                                            witness("C17", "an opened format-conforming archive reports values that differ from the encoder's inputs", format!("layout {:?} chunks {} level {} unknown_fields {} reported {:?} expected {:?}", lay, n, level, cases % 3 == 1, got, built.want));
                                        }
                                    }
                                    Err(e) => witness("C17", "a format-conforming archive is not opened", format!("layout {:?} chunks {} level {} unknown_fields {} error {:?}", lay, n, level, cases % 3 == 1, e)),
                                }
                                let local = rt.block_on(clone_with(IoReader::new(Cursor::new(built.bytes.clone()))));
                                if local.as_ref().ok() != Some(&built.source) {
                                    witness("C17", "local clone of a format-conforming archive differs from the source / fails", format!("layout {:?} chunks {} result {:?}", lay, n, local.as_ref().map(|v| v.len())));
                                }
                                // HTTP for a subset of the grid (slower)
                                if hash_len == 64 && gap == 0 || cases % 7 == 0 {
                                    let bytes = built.bytes.clone();
                                    let r = rt.block_on(async { let (reader, _log) = http_reader_for(&bytes, Misbehave::No).await; clone_with(reader).await });
                                    if r.as_ref().ok() != Some(&built.source) {
                                        witness("C17", "HTTP clone of a format-conforming archive differs from the source / fails", format!("layout {:?} chunks {} result {:?}", lay, n, r.as_ref().map(|v| v.len())));
                                    }
                                }
                                cases += 1;
                            }
                        }
                    }
                }
            }
        }
    }
    if deep {
        // thorough tier: random layouts drawn from VERIF_SEED (chunk count 0..=12, random stored order, slack, gaps,
        // per-chunk raw/brotli, hash length 4..=64, either magic, any recorded level, unknown fields)
        let seed: u64 = std::env::var("VERIF_SEED").ok().and_then(|s| s.parse().ok()).unwrap_or(1);
        let rounds: usize = std::env::var("VERIF_COMPANION_CASES").ok().and_then(|s| s.parse().ok()).unwrap_or(3000);
        let mut r = Rng(0x17de_e917_0000_0001 ^ seed.wrapping_mul(0x9e37_79b9_7f4a_7c15));
        for k in 0..rounds {
            let n = r.below(13) as usize;
            let chunks = sample_chunks(&mut r, n);
            let nu = { let mut u: Vec<&Vec<u8>> = vec![]; for c in &chunks { if !u.contains(&c) { u.push(c); } } u.len() };
            let mut order: Vec<usize> = (0..nu).collect();
            for i in (1..nu).rev() { let j = r.below(i as u64 + 1) as usize; order.swap(i, j); }
            let lay = Layout { legacy_magic: r.below(2) == 0, slack: [0usize, 0, 1, 9, 100][r.below(5) as usize], order, gap: r.below(6) as usize,
                               compress: (0..nu).map(|_| r.below(2) == 0).collect(), hash_len: 4 + r.below(61) as usize };
            let brotli = r.below(3) != 0;
            let level = [6u32, 0, 12, u32::MAX, 1, 11][r.below(6) as usize];
            let unknown = r.below(2) == 0;
            let built = encode_ext(&chunks, &lay, default_params(), brotli, level, unknown);
            match rt.block_on(Archive::try_init(IoReader::new(Cursor::new(built.bytes.clone())))) {
                Ok(a) => { let got = observed(&a); if got != built.want { witness("C17", "an opened format-conforming archive reports values that differ from the encoder's inputs", format!("random layout #{} (seed {}): {:?} chunks {} level {} unknown_fields {} reported {:?} expected {:?}", k, seed, lay, n, level, unknown, got, built.want)); } }
                Err(e) => witness("C17", "a format-conforming archive is not opened", format!("random layout #{} (seed {}): {:?} chunks {} level {} unknown_fields {} error {:?}", k, seed, lay, n, level, unknown, e)),
            }
            let local = rt.block_on(clone_with(IoReader::new(Cursor::new(built.bytes.clone()))));
            if local.as_ref().ok() != Some(&built.source) { witness("C17", "local clone of a format-conforming archive differs from the source / fails", format!("random layout #{} (seed {}): {:?} chunks {} result {:?}", k, seed, lay, n, local.as_ref().map(|v| v.len()))); }
            if k % 10 == 0 {
                let bytes = built.bytes.clone();
                let rr = rt.block_on(async { let (reader, _log) = http_reader_for(&bytes, Misbehave::No).await; clone_with(reader).await });
                if rr.as_ref().ok() != Some(&built.source) { witness("C17", "HTTP clone of a format-conforming archive differs from the source / fails", format!("random layout #{} (seed {}): {:?} chunks {} result {:?}", k, seed, lay, n, rr.as_ref().map(|v| v.len()))); }
            }
            cases += 1;
        }
    }
    println!("COMPANION-OK cases={}", cases);
}

// ------------------------------------------------------------------------------------------ C07
#[test]
fn c07_range_requests() {
    let rt = rt();
    let mut rng = Rng(0x0707_0707_1234_5678);
    let chunks = { let mut c = sample_chunks(&mut rng, 6); c.push(c[1].clone()); c };   // duplicates at non-adjacent places
    let mut cases = 0;
    for (order_kind, gap) in [(0, 0usize), (1, 0), (2, 0), (0, 2)] {
        let nu = 6;
        let order: Vec<usize> = match order_kind { 0 => (0..nu).collect(), 1 => (0..nu).rev().collect(), _ => vec![2, 0, 1, 5, 3, 4] };
        let lay = Layout { legacy_magic: false, slack: 0, order, gap, compress: vec![false; nu], hash_len: 64 };
        let built = encode(&chunks, &lay, default_params(), false);
        let header_len = built.header_len as u64;
        for mask in 1u32..(1 << nu) {
            let bytes = built.bytes.clone();
            let (got_ranges, wanted, descs) = rt.block_on(async {
                let (reader, log) = http_reader_for(&bytes, Misbehave::No).await;
                let mut archive = Archive::try_init(reader).await.unwrap();
                let descs = archive.chunk_descriptors().to_vec();
                let mut index = archive.build_source_index();
                // keep only the wanted subset in the index
                for (i, cd) in descs.iter().enumerate() { if mask & (1 << i) == 0 { index.remove(&cd.checksum); } }
                log.lock().unwrap().clear();
                let wanted: Vec<usize> = (0..descs.len()).filter(|i| mask & (1 << i) != 0).collect();
                let mut got = vec![];
                { let mut s = archive.chunk_stream(&index); while let Some(r) = s.next().await { got.push(r.map(|c| c.len()).map_err(|e| format!("{:?}", e))); } }
                let ranges = log.lock().unwrap().clone();
                if got.len() != wanted.len() && !got.iter().any(|g| g.is_err()) {
                    println!("WITNESS {{\"kind\":\"C06\",\"what\":\"the number of chunks fetched from the archive is not the number of wanted chunks (each once)\",\"detail\":{:?}}}",
                        format!("mask {:b} wanted {} fetched {}", mask, wanted.len(), got.len()));
                }
                if got.len() != wanted.len() || got.iter().any(|g| g.is_err()) { witness("C07", "chunk stream over HTTP did not deliver the wanted chunks", format!("mask {:b} got {:?}", mask, got)); }
                (ranges, wanted, descs)
            });
            // oracle: maximal runs of back-to-back chunks in fetch order (descriptor order restricted to the wanted ones)
            let mut expected: Vec<(u64, u64)> = vec![];
            let mut prev_end: Option<u64> = None;
            for &i in &wanted {
                let (o, e) = (descs[i].archive_offset, descs[i].archive_offset + descs[i].archive_size as u64);
                match prev_end { Some(pe) if pe == o => expected.last_mut().unwrap().1 = e - 1, _ => expected.push((o, e - 1)) }
                prev_end = Some(e);
            }
            let got: Vec<(u64, u64)> = got_ranges.into_iter().filter(|r| r.0 >= header_len).collect();
            {   // C06: the chunk data requested is exactly the stored ranges of the wanted chunks, no byte twice
                let mut want_bytes: Vec<(u64, u64)> = wanted.iter().map(|&i| (descs[i].archive_offset, descs[i].archive_offset + descs[i].archive_size as u64 - 1)).collect();
                want_bytes.sort();
                let mut got_sorted = got.clone();
                got_sorted.sort();
                let total = |v: &Vec<(u64, u64)>| -> u64 { v.iter().map(|r| r.1 - r.0 + 1).sum() };
                let covered = want_bytes.iter().all(|w| got_sorted.iter().any(|g| g.0 <= w.0 && w.1 <= g.1));
                if !covered || total(&want_bytes) != total(&got_sorted) {
                    println!("WITNESS {{\"kind\":\"C06\",\"what\":\"the chunk data requested is not exactly the stored ranges of the wanted chunks, each once\",\"detail\":{:?}}}",
                        format!("layout order_kind {} gap {} wanted {:?} ranges wanted {:?} requested {:?}", order_kind, gap, wanted, want_bytes, got));
                }
            }
            if got != expected {
                witness("C07", "Range requests differ from the maximal runs of adjacent wanted chunks", format!("layout order_kind {} gap {} wanted {:?} expected {:?} got {:?}", order_kind, gap, wanted, expected, got));
            }
            cases += 1;
        }
    }
    println!("COMPANION-OK cases={}", cases);
}

// ------------------------------------------------------------------------------------------ C04
#[test]
fn c04_corruptions() {
    let rt = rt();
    let mut rng = Rng(0x0404_dead_beef_0001);
    let chunks = sample_chunks(&mut rng, 5);
    let nu = 5;
    let mut cases = 0;
    for brotli in [false, true] {
        let lay = Layout { legacy_magic: false, slack: 0, order: (0..nu).collect(), gap: 0, compress: vec![true; nu], hash_len: 16 };
        let built = encode(&chunks, &lay, default_params(), brotli);
        let n = built.bytes.len();
        let check = |what: &str, bytes: Vec<u8>, detail: String| {
            let r = rt.block_on(clone_with(IoReader::new(Cursor::new(bytes))));
            if let Ok(out) = &r { if *out != built.source { witness("C04", what, detail); } }
        };
        // every truncation length
        for len in 0..n { check("clone of a truncated archive reports success with different output", built.bytes[..len].to_vec(), format!("truncated to {} of {} bytes (header {} bytes)", len, n, built.header_len)); cases += 1; }
        // every bit of the header, sampled bits of the payload
        for pos in 0..n {
            let bits: Vec<u8> = if pos < built.header_len || std::env::var("VERIF_COMPANION_DEEP").is_ok() { (0..8).collect() } else { vec![(pos % 8) as u8] };
            for bit in bits {
                let mut b = built.bytes.clone();
                b[pos] ^= 1 << bit;
                check("clone of a bit-flipped archive reports success with different output", b, format!("bit {} of byte {} flipped (header {} bytes)", bit, pos, built.header_len));
                cases += 1;
            }
        }
        // trailing garbage and a swapped pair of payload bytes
        { let mut b = built.bytes.clone(); b.extend([1u8, 2, 3]); check("trailing garbage", b, "3 bytes appended".into()); }
        // short HTTP bodies: the server never sends beyond position p
        for p in (built.header_len as u64)..(n as u64) {
            let bytes = built.bytes.clone();
            let r = rt.block_on(async { let (reader, _l) = http_reader_for(&bytes, Misbehave::CutAt(p)).await; tokio::time::timeout(Duration::from_secs(30), clone_with(reader)).await });
            match r {
                Err(_) => witness("C04", "HTTP clone from a server sending short bodies hangs", format!("bodies cut at archive position {}", p)),
                Ok(Ok(out)) if out != built.source => witness("C04", "HTTP clone from a server sending short bodies reports success with different output", format!("bodies cut at archive position {} (header {} bytes, archive {} bytes)", p, built.header_len, n)),
                _ => {}
            }
            cases += 1;
        }
    }
    println!("COMPANION-OK cases={}", cases);
}

// ------------------------------------------------------------------------------------------ C15
fn guarded<F: FnOnce() + Send + 'static>(what: String, f: F) {
    let (tx, rx) = std::sync::mpsc::channel();
    let h = std::thread::spawn(move || { let r = std::panic::catch_unwind(std::panic::AssertUnwindSafe(f)); let _ = tx.send(r.is_ok()); });
    match rx.recv_timeout(Duration::from_secs(15)) {
        Ok(true) => { let _ = h.join(); }
        Ok(false) => witness("C15", "panic while opening / inspecting / chunking with an untrusted archive", what),
        Err(_) => witness("C15", "no result within 15 s (endless loop or unbounded work) on an untrusted archive", what),
    }
}

fn exercise(bytes: Vec<u8>) {
    let rt = tokio::runtime::Builder::new_current_thread().enable_all().build().unwrap();
    rt.block_on(async move {
        let archive = match Archive::try_init(IoReader::new(Cursor::new(bytes))).await { Ok(a) => a, Err(_) => return };
        // what `bita info` and `bita clone` do with the decoded values
        let _ = archive.iter_source_chunks().count();
        let idx = archive.build_source_index();
        let _ = idx.len();
        let _ = archive.compressed_size();
        match archive.chunker_config() {
            bitar::chunker::Config::BuzHash(f) | bitar::chunker::Config::RollSum(f) => { let _ = f.filter_bits.mask(); let _ = f.filter_bits.chunk_target_average(); }
            bitar::chunker::Config::FixedSize(_) => {}
        }
        // chunk a small seed with the archive's own chunker (as clone does with seeds / the output)
        let seed: Vec<u8> = (0..3000u32).map(|i| if i % 700 < 300 { 0 } else { (i * 7 % 251) as u8 }).collect();
        let mut s = archive.chunker_config().new_chunker(&seed[..]);
        let mut n = 0usize;
        while let Some(r) = s.next().await { let _ = r; n += 1; if n > 4000 { panic!("chunker yields more chunks than input bytes"); } }
    });
}

#[test]
fn c15_crafted_archives() {
    std::panic::set_hook(Box::new(|_| {}));
    let mut cases = 0;
    let u32s = [0u32, 1, 2, 30, 31, 32, 33, 63, 64, 65, 255, 4096, u32::MAX - 1, u32::MAX];
    // (1) chunker parameters
    for algo in [0i32, 1, 2, 3, -1] {
        for &bits in &[0u32, 1, 2, 15, 29, 30, 31, 32, 33, u32::MAX] {
            for &min in &[0u32, 1, 16, 64, u32::MAX] {
                for &max in &[0u32, 1, 16, 64, 65, u32::MAX] {
                    for &w in &[0u32, 1, 2, 16, 64, 65, 20000] {
                        let p = dict::ChunkerParameters { chunk_filter_bits: bits, min_chunk_size: min, max_chunk_size: max, rolling_hash_window_size: w, chunk_hash_length: 64, chunking_algorithm: algo };
                        let d = dict::ChunkDictionary { application_version: "c".into(), source_checksum: vec![0; 64], source_total_size: 0, chunker_params: Some(p),
                            chunk_compression: Some(dict::ChunkCompression { compression: 0, compression_level: 0 }), rebuild_order: vec![], chunk_descriptors: vec![], metadata: Default::default() };
                        let bytes = bitar::header::build(&d, None).unwrap();
                        guarded(format!("chunker params algo {} bits {} min {} max {} window {}", algo, bits, min, max, w), move || exercise(bytes));
                        cases += 1;
                    }
                }
            }
        }
    }
    // (2) descriptors / rebuild order / compression / checksum lengths (quick tier: every stride-th case)
    let stride: usize = std::env::var("VERIF_COMPANION_STRIDE").ok().and_then(|s| s.parse().ok()).unwrap_or(1);
    let mut counter = 0usize;
    let base_params = dict::ChunkerParameters { chunk_filter_bits: 10, min_chunk_size: 16, max_chunk_size: 1024, rolling_hash_window_size: 16, chunk_hash_length: 64, chunking_algorithm: 1 };
    for ndesc in [0usize, 1, 3] {
        for order in [vec![], vec![0u32], vec![0, 0, 1], vec![ndesc as u32], vec![ndesc as u32 + 1], vec![u32::MAX], vec![2, 1, 0, 3]] {
            for &sz in &u32s {
                for cklen in [0usize, 1, 4, 63, 64, 65, 200] {
                    for (ctype, clevel) in [(0i32, 0u32), (3, 6), (3, u32::MAX), (1, 6), (2, 3), (7, 1)] {
                        let descs: Vec<dict::ChunkDescriptor> = (0..ndesc).map(|i| dict::ChunkDescriptor { checksum: vec![i as u8; cklen], archive_size: sz, archive_offset: if i == 1 { u64::MAX - 5 } else { i as u64 * 10 }, source_size: sz.wrapping_add(i as u32) }).collect();
                        let d = dict::ChunkDictionary { application_version: "c".into(), source_checksum: vec![1; cklen], source_total_size: u64::MAX, chunker_params: Some(base_params.clone()),
                            chunk_compression: Some(dict::ChunkCompression { compression: ctype, compression_level: clevel }), rebuild_order: order.clone(), chunk_descriptors: descs, metadata: Default::default() };
                        for off in [None, Some(0u64), Some(u64::MAX)] {
                            counter += 1;
                            if counter % stride != 0 { continue; }
                            let bytes = bitar::header::build(&d, off).unwrap();
                            guarded(format!("ndesc {} order {:?} size {} checksum_len {} compression ({},{}) chunk_data_offset {:?}", ndesc, order, sz, cklen, ctype, clevel, off), move || exercise(bytes));
                            cases += 1;
                        }
                    }
                }
            }
        }
    }
    // (3) missing sub-messages, tampered size field, every truncation of a small valid archive
    let d = dict::ChunkDictionary { application_version: "c".into(), source_checksum: vec![2; 64], source_total_size: 5, chunker_params: None, chunk_compression: None, rebuild_order: vec![], chunk_descriptors: vec![], metadata: Default::default() };
    let bytes = bitar::header::build(&d, None).unwrap();
    guarded("missing chunker_params / chunk_compression".into(), move || exercise(bytes));
    let d = dict::ChunkDictionary { chunker_params: Some(base_params.clone()), chunk_compression: Some(dict::ChunkCompression { compression: 0, compression_level: 0 }), ..d };
    let valid = bitar::header::build(&d, None).unwrap();
    for sz in [0u64, 1, 13, 14, valid.len() as u64, 1 << 20, 1 << 31, 1 << 32, 1 << 46, 1 << 62, 1 << 63, u64::MAX - 72, u64::MAX - 71, u64::MAX] {
        println!("STAGE dictionary size field of a valid archive set to {}", sz);
        let mut b = valid.clone();
        b[6..14].copy_from_slice(&sz.to_le_bytes());
        guarded(format!("dictionary size field set to {}", sz), move || exercise(b));
        cases += 1;
    }
    for len in 0..valid.len() {
        let b = valid[..len].to_vec();
        guarded(format!("valid archive truncated to {} of {} bytes", len, valid.len()), move || exercise(b));
        cases += 1;
    }
    println!("COMPANION-OK cases={}", cases);
}

/// C15 over HTTP: the declared sizes of a whole run of adjacent chunks are attacker-controlled; fetching such a run must
/// not allocate (or otherwise depend on) more than what actually arrives.
#[test]
fn c15_http_crafted_runs() {
    std::panic::set_hook(Box::new(|_| {}));
    let mut cases = 0;
    for n in [2usize, 300, 4096] {
        for size in [u32::MAX, 1 << 20, 7] {
            for cut in [false, true] {
                let descs: Vec<dict::ChunkDescriptor> = (0..n).map(|i| dict::ChunkDescriptor {
                    checksum: { let mut c = vec![0u8; 64]; c[0] = i as u8; c[1] = (i >> 8) as u8; c },
                    archive_size: size, archive_offset: i as u64 * size as u64, source_size: size }).collect();
                let d = dict::ChunkDictionary { application_version: "c".into(), source_checksum: vec![0; 64], source_total_size: n as u64 * size as u64,
                    chunker_params: Some(default_params()), chunk_compression: Some(dict::ChunkCompression { compression: 0, compression_level: 0 }),
                    rebuild_order: (0..n as u32).collect(), chunk_descriptors: descs, metadata: Default::default() };
                let mut bytes = bitar::header::build(&d, None).unwrap();
                let header_len = bytes.len();
                bytes.extend([0x55u8; 40]);   // the server has 40 bytes of chunk data, the dictionary declares up to 16 TiB
                let what = format!("{} adjacent descriptors of {} bytes each over HTTP, server has 40 data bytes{}", n, size, if cut { " and cuts bodies after 10" } else { "" });
                println!("STAGE {}", what);
                guarded(what, move || {
                    let rt = rt();
                    let r = rt.block_on(async {
                        let (reader, _log) = http_reader_for(&bytes, if cut { Misbehave::CutAt(header_len as u64 + 10) } else { Misbehave::No }).await;
                        clone_with(reader.retries(1).retry_delay(Duration::from_millis(1))).await
                    });
                    if r.is_ok() { panic!("clone of an archive whose chunk data does not exist reports success"); }
                });
                cases += 1;
            }
        }
    }
    println!("COMPANION-OK cases={}", cases);
}
